SPECIFICATION TraceSpec
CONSTANTS
  Templates <- TplSmall
  Verbs = {"GET","POST","PUT"}
  MaxLen = 100
  DedupByText = FALSE
POSTCONDITION TraceAccepted
CHECK_DEADLOCK FALSE
