SPECIFICATION SimSpec
CONSTANTS
  CfgChoices <- CfgsC09
  CtrlChoices <- CtrlsC13
  MethodChoices <- MethodsC09
  TypeChoices <- TypesC09
  MaxCtrls = 3
  MaxMethods = 2
  SortBeforeReduce = TRUE
INVARIANTS EmitCase
CHECK_DEADLOCK FALSE
