------------------------------ MODULE Project ------------------------------
(***************************************************************************)
(* Data model of a gleece project and configuration, and the declarative   *)
(* semantics the properties are stated in: FullPath/NormPath, IsApi,       *)
(* DocumentedOps (C01), Served (C02), EffectiveSecurity (C03/C04),         *)
(* SchemesNamed, EnforceOk, Required (C05/C06), ExpectedOperation (C06),   *)
(* WellLinked (C10).  No variables: these are the properties' vocabulary.  *)
(*                                                                         *)
(* A project is a record                                                   *)
(*   [cfg, ctrls : Seq(Ctrl), methods : Seq(Method), types : Seq(Type)]    *)
(* whose shape is exactly the JSON the concretiser turns into a Go module  *)
(* (harness/cmd/vcheck/project.go).  Text (route templates, names) is      *)
(* carried as strings exactly as the author writes them; the semantics is  *)
(* defined on the text by small character-level operators, the way the     *)
(* documentation defines it ("concatenate, collapse repeated slashes").    *)
(***************************************************************************)
EXTENDS Naturals, Sequences, FiniteSets, TLC

NoSec == [scheme |-> "", scopes |-> <<>>]     \* "no default security" in cfg.default

Range(s) == {s[i] : i \in DOMAIN s}

\* ---- strings --------------------------------------------------------------
Ch(s, i) == SubSeq(s, i, i)

RECURSIVE CollapseFrom(_, _)
CollapseFrom(s, i) ==
    IF i > Len(s) THEN ""
    ELSE IF Ch(s, i) = "/" /\ i > 1 /\ Ch(s, i - 1) = "/" THEN CollapseFrom(s, i + 1)
    ELSE Ch(s, i) \o CollapseFrom(s, i + 1)
Collapse(s) == CollapseFrom(s, 1)               \* every run of slashes becomes one slash

\* the {names} of a template, in order of appearance (a sequence: duplicates matter)
RECURSIVE PlaceholdersFrom(_, _, _)
PlaceholdersFrom(s, i, open) ==
    IF i > Len(s) THEN <<>>
    ELSE IF Ch(s, i) = "{" THEN PlaceholdersFrom(s, i + 1, i)
    ELSE IF Ch(s, i) = "}" /\ open > 0 THEN <<SubSeq(s, open + 1, i - 1)>> \o PlaceholdersFrom(s, i + 1, 0)
    ELSE PlaceholdersFrom(s, i + 1, open)
Placeholders(s) == PlaceholdersFrom(s, 1, 0)

Lower(v) == CASE v = "GET" -> "get" [] v = "POST" -> "post" [] v = "PUT" -> "put" [] v = "DELETE" -> "delete"
              [] v = "PATCH" -> "patch" [] OTHER -> v
SupportedVerbs == {"GET", "POST", "PUT", "DELETE", "PATCH"}

\* ---- structure ------------------------------------------------------------
CtrlOf(p, m)    == CHOOSE c \in Range(p.ctrls) : c.id = m.ctrl
\* controllerGlobs: a controller whose file no glob matches ("outside") contributes nothing - neither do its methods -
\* however its package came to be loaded (packages named by imported model types are loaded whole, lazily)
Outside(c) == "outside" \in DOMAIN c /\ c.outside
Scoped(p) == [p EXCEPT !.ctrls   = SelectSeq(@, LAMBDA c : ~Outside(c)),
                       !.methods = SelectSeq(@, LAMBDA m : ~Outside(CHOOSE c \in Range(p.ctrls) : c.id = m.ctrl))]
MethodsOf(p, c) == {m \in Range(p.methods) : m.ctrl = c.id}          \* the methods whose receiver is THAT controller
IsApi(m)        == m.verb # "" /\ m.route # ""
FullText(c, m)  == c.prefix \o m.route
NormPath(c, m)  == Collapse(FullText(c, m))

\* ---- C01 / C02 --------------------------------------------------------------
DocumentedOps(p) ==
    { [verb |-> Lower(m.verb), path |-> NormPath(CtrlOf(p, m), m), opId |-> m.name, tag |-> CtrlOf(p, m).tag, deprecated |-> m.deprecated]
        : m \in {x \in Range(p.methods) : IsApi(x) /\ ~x.hidden} }
Served(p) ==
    { [verb |-> m.verb, path |-> NormPath(CtrlOf(p, m), m), ctrl |-> CtrlOf(p, m).id, method |-> m.name, hidden |-> m.hidden]
        : m \in {x \in Range(p.methods) : IsApi(x)} }
VP(S) == {<<Lower(o.verb), o.path>> : o \in S}
\* documented is a subset of served and the difference is exactly the hidden routes
DocSubsetServed(p) ==
    /\ VP(DocumentedOps(p)) \subseteq VP(Served(p))
    /\ \A s \in Served(p) : (<<Lower(s.verb), s.path>> \notin VP(DocumentedOps(p))) =>
            \A t \in Served(p) : (t.verb = s.verb /\ t.path = s.path) => t.hidden

\* two routes of one project answering the same verb and normalised path (dispatch/documentation ambiguous there)
Ambiguous(p) == \E m1, m2 \in Range(p.methods) : m1 # m2 /\ IsApi(m1) /\ IsApi(m2) /\ m1.verb = m2.verb
                    /\ NormPath(CtrlOf(p, m1), m1) = NormPath(CtrlOf(p, m2), m2)

\* ---- C03 / C04 --------------------------------------------------------------
HasDefault(cfg) == cfg.default.scheme # ""
EffectiveSecurity(cfg, c, m) ==
    IF m.sec # <<>> THEN m.sec
    ELSE IF c.sec # <<>> THEN c.sec
    ELSE IF HasDefault(cfg) THEN <<cfg.default>> ELSE <<>>
OpSecurity(p) ==
    { [verb |-> Lower(m.verb), path |-> NormPath(CtrlOf(p, m), m), security |-> EffectiveSecurity(p.cfg, CtrlOf(p, m), m)]
        : m \in {x \in Range(p.methods) : IsApi(x) /\ ~x.hidden} }
SchemesNamed(p) == UNION { {s.scheme : s \in Range(EffectiveSecurity(p.cfg, CtrlOf(p, m), m))} : m \in {x \in Range(p.methods) : IsApi(x) /\ ~x.hidden} }
SchemesDeclared(p) == SchemesNamed(p) \subseteq Range(p.cfg.schemes)
EnforceOk(p) == p.cfg.enforce => \A m \in {x \in Range(p.methods) : IsApi(x)} : EffectiveSecurity(p.cfg, CtrlOf(p, m), m) # <<>>

\* ---- C05 / C06 ----------------------------------------------------------------
Split(s, sep) == LET RECURSIVE go(_, _) go(i, cur) == IF i > Len(s) THEN <<cur>>
                                                      ELSE IF Ch(s, i) = sep THEN <<cur>> \o go(i + 1, "") ELSE go(i + 1, cur \o Ch(s, i))
                 IN go(1, "")
Rules(v) == IF v = "" THEN {} ELSE Range(Split(v, ","))
IsPointer(t) == Len(t) > 0 /\ Ch(t, 1) = "*"
Deref0(t) == IF IsPointer(t) THEN SubSeq(t, 2, Len(t)) ELSE t
IsContext(t) == t = "context.Context"
AnnFor(m, name) == {a \in Range(m.anns) : a.value = name}
\* required iff non-pointer, or a path parameter, or explicitly validated as required
RequiredParam(sig, ann) == ~IsPointer(sig.type) \/ ann.kind = "Path" \/ "required" \in Rules(ann.validate)
WireName(ann) == IF ann.alias # "" THEN ann.alias ELSE ann.value
InOf(kind) == CASE kind = "Path" -> "path" [] kind = "Query" -> "query" [] kind = "Header" -> "header"
                [] kind = "FormField" -> "form" [] kind = "Body" -> "body" [] OTHER -> "?"

\* the schema a Go type is documented with (validator keywords aside): primitives by kind, slices as arrays, string-keyed maps
\* as objects with additionalProperties, every other named type as a reference to the component of that (bare) name
IntTypes == {"int", "int8", "int16", "int32", "int64", "uint", "uint8", "uint16", "uint32", "uint64"}
RECURSIVE LastDot(_, _)
LastDot(t, i) == IF i = 0 THEN 0 ELSE IF Ch(t, i) = "." THEN i ELSE LastDot(t, i - 1)
BareName(t) == SubSeq(t, LastDot(t, Len(t)) + 1, Len(t))
IsMap(t) == Len(t) > 11 /\ SubSeq(t, 1, 11) = "map[string]"
RECURSIVE TypeSchema(_)
TypeSchema(t0) ==
    LET t == IF Len(t0) > 0 /\ Ch(t0, 1) = "*" THEN SubSeq(t0, 2, Len(t0)) ELSE t0 IN
    IF t = "string" THEN [k |-> "prim", t |-> "string", f |-> ""]
    ELSE IF t \in IntTypes THEN [k |-> "prim", t |-> "integer", f |-> ""]
    ELSE IF t = "bool" THEN [k |-> "prim", t |-> "boolean", f |-> ""]
    ELSE IF t \in {"float32", "float64"} THEN [k |-> "prim", t |-> "number", f |-> ""]
    ELSE IF t = "[]byte" THEN [k |-> "prim", t |-> "string", f |-> "base64"]
    ELSE IF t = "time.Time" THEN [k |-> "prim", t |-> "string", f |-> "date-time"]
    ELSE IF Len(t) >= 2 /\ SubSeq(t, 1, 2) = "[]" THEN [k |-> "array", items |-> TypeSchema(SubSeq(t, 3, Len(t)))]
    ELSE IF IsMap(t) THEN [k |-> "map", value |-> TypeSchema(SubSeq(t, 12, Len(t)))]
    ELSE [k |-> "ref", name |-> BareName(t)]
NoSchema == [k |-> "none"]
\* validator tag -> format keyword (stated once, for both dialects): a format rule applies to string schemas only and the last one wins
FormatRules == {"email", "uuid", "ip", "ipv4", "ipv6", "hostname", "date", "datetime"}
FormatOf(r) == CASE r = "ip" -> "ipv4" [] r = "datetime" -> "date-time" [] OTHER -> r
RuleName(r) == Split(r, "=")[1]
RECURSIVE LastFormatIn(_, _)
LastFormatIn(rs, i) == IF i = 0 THEN "" ELSE IF RuleName(rs[i]) \in FormatRules THEN FormatOf(RuleName(rs[i])) ELSE LastFormatIn(rs, i - 1)
LastFormat(v) == IF v = "" THEN "" ELSE LastFormatIn(Split(v, ","), Len(Split(v, ",")))
SchemaV(t, v) == LET sc == TypeSchema(t) lf == LastFormat(v)
                 IN  IF sc.k = "prim" /\ sc.t = "string" /\ sc.f = "" /\ lf # "" THEN [sc EXCEPT !.f = lf] ELSE sc   \* (Go strings; not time.Time / []byte)

\* documented parameters: the non-context path/query/header parameters in SIGNATURE order
RECURSIVE ExpParamsFrom(_, _)
ExpParamsFrom(m, i) ==
    IF i > Len(m.sig) THEN <<>>
    ELSE LET s  == m.sig[i]
             as == AnnFor(m, s.name)
         IN  IF IsContext(s.type) \/ as = {} THEN ExpParamsFrom(m, i + 1)
             ELSE LET a == CHOOSE x \in as : TRUE IN
                  IF a.kind \in {"Path", "Query", "Header"}
                  THEN <<[name |-> WireName(a), in |-> InOf(a.kind), required |-> RequiredParam(s, a), schema |-> SchemaV(s.type, a.validate)]>> \o ExpParamsFrom(m, i + 1)
                  ELSE ExpParamsFrom(m, i + 1)
ExpParams(m) == ExpParamsFrom(m, 1)

\* how a handler binds its arguments (C05): every parameter in signature order with its source, wire name, type and requiredness
BindParams(m) ==
    [i \in DOMAIN m.sig |->
        LET s == m.sig[i] as == AnnFor(m, s.name) IN
        IF IsContext(s.type) THEN [name |-> s.name, in |-> "ctx", wire |-> "", type |-> s.type, required |-> FALSE, validate |-> ""]
        ELSE IF as = {} THEN [name |-> s.name, in |-> "?", wire |-> "", type |-> s.type, required |-> FALSE, validate |-> ""]
        ELSE LET a == CHOOSE x \in as : TRUE IN
             [name |-> s.name, in |-> InOf(a.kind), wire |-> WireName(a), type |-> s.type, required |-> RequiredParam(s, a), validate |-> a.validate]]
\* validateResponsePayload: before a value is written the generated handler validates it - a nil pointer is refused, a struct is
\* run through the validator - and answers 500 when that fails.  The instrumented controllers return ZERO values, so what matters
\* is whether the zero value of the result type is valid: "invalid" when it certainly is not (nil pointer; a struct with a
\* required scalar field), "valid" when it certainly is (nil slice / map; non-struct; a struct without any rule), "unknown" when
\* deciding it would take a model of the validator library (then the status of a served request is not constrained).
DeclsNamed(p, n) == {t \in Range(p.types) : t.pkg \o "." \o t.name = n}
IsSliceT(t) == Len(t) >= 2 /\ SubSeq(t, 1, 2) = "[]"
ScalarGo(t) == t \in {"string", "bool", "int", "int8", "int16", "int32", "int64", "uint", "uint8", "uint16", "uint32", "uint64", "float32", "float64"}
ZeroVerdict(p, t) ==
    IF IsPointer(t) THEN "invalid"
    ELSE IF IsSliceT(t) \/ IsMap(t) THEN "valid"
    ELSE LET ds == DeclsNamed(p, t) IN
         IF ds = {} THEN "valid"
         ELSE LET d == CHOOSE x \in ds : TRUE IN
              IF d.kind # "struct" THEN "valid"
              ELSE IF \E f \in Range(d.fields) : ~f.embed /\ ScalarGo(f.type) /\ "required" \in Rules(f.valid) THEN "invalid"
              ELSE IF \A f \in Range(d.fields) : ~f.embed /\ f.valid = "" /\ (ScalarGo(f.type) \/ IsPointer(f.type) \/ IsSliceT(f.type) \/ IsMap(f.type)) THEN "valid"
              ELSE "unknown"
RespCheck(p, m) == IF "validateResponsePayload" \in DOMAIN p.cfg /\ p.cfg.validateResponsePayload /\ Len(m.ret) = 2 /\ ~ScalarGo(Deref0(m.ret[1])) /\ Deref0(m.ret[1]) # "error"
                   THEN ZeroVerdict(p, m.ret[1]) ELSE "valid"
Handlers(p) ==
    { [ctrl |-> CtrlOf(p, m).id, ctrlName |-> CtrlOf(p, m).name, pkg |-> CtrlOf(p, m).pkg, method |-> m.name, verb |-> m.verb, path |-> NormPath(CtrlOf(p, m), m),
       hidden |-> m.hidden, alts |-> EffectiveSecurity(p.cfg, CtrlOf(p, m), m), params |-> BindParams(m), returnsValue |-> (Len(m.ret) = 2),
       respCheck |-> RespCheck(p, m),
       enumStrict |-> ("validateTopLevelOnlyEnum" \in DOMAIN p.cfg /\ p.cfg.validateTopLevelOnlyEnum)]
        : m \in {x \in Range(p.methods) : IsApi(x)} }

ExpBody(m) ==
    LET bs == {i \in DOMAIN m.sig : \E a \in AnnFor(m, m.sig[i].name) : a.kind = "Body"}
        fs == {i \in DOMAIN m.sig : \E a \in AnnFor(m, m.sig[i].name) : a.kind = "FormField"}
    IN  IF bs # {} THEN LET i == CHOOSE x \in bs : TRUE
                            a == CHOOSE x \in AnnFor(m, m.sig[i].name) : x.kind = "Body"
                        IN  [kind |-> "json", required |-> RequiredParam(m.sig[i], a), schema |-> TypeSchema(m.sig[i].type), fields |-> {}]
        ELSE IF fs # {} THEN [kind |-> "form", required |-> FALSE, schema |-> NoSchema,
                              fields |-> { LET a == CHOOSE x \in AnnFor(m, m.sig[i].name) : x.kind = "FormField"
                                           IN [name |-> WireName(a), required |-> RequiredParam(m.sig[i], a), schema |-> SchemaV(m.sig[i].type, a.validate)] : i \in fs }]
        ELSE [kind |-> "none", required |-> FALSE, schema |-> NoSchema, fields |-> {}]

\* success: @Response code if present, else 200 with the value type when (T, error), else 204 without content
ReturnsValue(m) == Len(m.ret) = 2
ExpSuccess(m) == [code |-> IF m.response # 0 THEN m.response ELSE IF ReturnsValue(m) THEN 200 ELSE 204,
                  schema |-> IF ReturnsValue(m) THEN TypeSchema(m.ret[1]) ELSE NoSchema]
ErrorTypeOf(m) == IF m.ret = <<>> THEN "" ELSE m.ret[Len(m.ret)]
ExpErrors(m) == {[code |-> e.code, schema |-> IF ErrorTypeOf(m) = "error" THEN [k |-> "ref", name |-> "Rfc7807Error"] ELSE TypeSchema(ErrorTypeOf(m))] : e \in Range(m.errors)}

ExpectedOperation(p, m) ==
    [verb |-> Lower(m.verb), path |-> NormPath(CtrlOf(p, m), m), opId |-> m.name, params |-> ExpParams(m), body |-> ExpBody(m),
     success |-> ExpSuccess(m), errors |-> ExpErrors(m)]
ExpectedOperations(p) == {ExpectedOperation(p, m) : m \in {x \in Range(p.methods) : IsApi(x) /\ ~x.hidden}}

\* ---- C07 ------------------------------------------------------------------------
Upper == {"A","B","C","D","E","F","G","H","I","J","K","L","M","N","O","P","Q","R","S","T","U","V","W","X","Y","Z"}
Exported(n) == Len(n) > 0 /\ Ch(n, 1) \in Upper
TagName(js) == LET parts == Split(js, ",") IN parts[1]                      \* json:"name,omitempty" -> name
JsonVisible(f) == Exported(f.name) /\ TagName(f.json) # "-"
JsonName(f) == IF f.json = "" \/ TagName(f.json) = "" THEN f.name ELSE TagName(f.json)
TypeNamed(p, n) == CHOOSE t \in Range(p.types) : t.pkg \o "." \o t.name = n
IsDeclared(p, n) == \E t \in Range(p.types) : t.pkg \o "." \o t.name = n

\* the named (declared) type a type expression mentions, stripped of pointers, slices and string-keyed maps
RECURSIVE CoreType(_)
CoreType(t) == IF Len(t) > 0 /\ Ch(t, 1) = "*" THEN CoreType(SubSeq(t, 2, Len(t)))
               ELSE IF Len(t) >= 2 /\ SubSeq(t, 1, 2) = "[]" /\ t # "[]byte" THEN CoreType(SubSeq(t, 3, Len(t)))
               ELSE IF IsMap(t) THEN CoreType(SubSeq(t, 12, Len(t)))
               ELSE t

\* declared types a declaration refers to (fields incl. embedded ones; enum/alias refer to nothing declared)
RefsOf(p, t) == IF t.kind = "struct" THEN {CoreType(f.type) : f \in Range(t.fields)} \cap {x.pkg \o "." \o x.name : x \in Range(p.types)} ELSE {}
RootTypes(p) == UNION { {CoreType(s.type) : s \in Range(m.sig)} \cup {CoreType(r) : r \in Range(m.ret)} : m \in {x \in Range(p.methods) : IsApi(x)} }
                  \cap {x.pkg \o "." \o x.name : x \in Range(p.types)}
RECURSIVE ReachFrom(_, _)
ReachFrom(p, S) == LET more == UNION {RefsOf(p, TypeNamed(p, n)) : n \in S} \ S IN IF more = {} THEN S ELSE ReachFrom(p, S \cup more)
Reachable(p) == ReachFrom(p, RootTypes(p))

PrimOf(b) == TypeSchema(b).t
\* a type's schema is a function of its declaration alone.  Deprecation: the declaration's own @Deprecated marks the component;
\* a field's @Deprecated marks that property when the property is an inline schema and can say nothing when it is a bare
\* reference to another component ("any": a 3.0 reference carries no siblings) - it never marks the referenced component
FieldDep(f) == IF TypeSchema(f.type).k = "ref" THEN "any" ELSE IF f.deprecated THEN "yes" ELSE "no"
SchemaOf(p, t) ==
    CASE t.kind = "struct" ->
            [k |-> "object", deprecated |-> t.deprecated,
             props |-> { [name |-> JsonName(f), schema |-> SchemaV(f.type, f.valid), dep |-> FieldDep(f)] : f \in {x \in Range(t.fields) : ~x.embed /\ JsonVisible(x)} },
             required |-> { JsonName(f) : f \in {x \in Range(t.fields) : ~x.embed /\ JsonVisible(x) /\ "required" \in Rules(x.valid)} },
             allOf |-> { BareName(CoreType(f.type)) : f \in {x \in Range(t.fields) : x.embed} }]
      [] t.kind = "enum" -> [k |-> "enum", deprecated |-> t.deprecated, t |-> PrimOf(t.base), values |-> {c.value : c \in Range(t.consts)}]
      [] t.kind = "raw" -> [k |-> "raw"]                 \* verbatim declarations (hostile inputs): no schema expectation
      [] OTHER -> [k |-> "alias", deprecated |-> t.deprecated, t |-> PrimOf(t.base)]
PlainErrorPresent(p) == \E m \in Range(p.methods) : IsApi(m) /\ m.ret # <<>> /\ m.ret[Len(m.ret)] = "error"
ExpectedComponents(p) == { [name |-> BareName(n), schema |-> SchemaOf(p, TypeNamed(p, n))] : n \in Reachable(p) }
\* two reachable declarations sharing a bare name collapse into one component key (outside the property's bijection)
NameClash(p) == \E a, b \in Reachable(p) : a # b /\ BareName(a) = BareName(b)

\* ---- C15 at the project level: which methods must receive a route-conflict warning -------------------------------------------
SegsOf(path) == LET parts == Split(path, "/") IN SelectSeq(parts, LAMBDA x : x # "")
IsParamSeg(x) == Len(x) >= 2 /\ Ch(x, 1) = "{" /\ Ch(x, Len(x)) = "}"
OverlapPaths(a, b) == LET sa == SegsOf(a) sb == SegsOf(b) IN
                      Len(sa) = Len(sb) /\ \A i \in DOMAIN sa : sa[i] = sb[i] \/ IsParamSeg(sa[i]) \/ IsParamSeg(sb[i])
ConflictingMethods(p) ==
    { m.name : m \in { x \in Range(p.methods) : IsApi(x) /\
                          \E y \in Range(p.methods) : y # x /\ IsApi(y) /\ y.verb = x.verb
                                /\ OverlapPaths(NormPath(CtrlOf(p, x), x), NormPath(CtrlOf(p, y), y)) } }

\* ---- C10 ------------------------------------------------------------------------
SeqToBag(s, x) == Cardinality({i \in DOMAIN s : s[i] = x})
PathAnns(m)  == {i \in DOMAIN m.anns : m.anns[i].kind = "Path"}
ParamAnns(m) == {i \in DOMAIN m.anns : m.anns[i].kind \in {"Path", "Query", "Header", "FormField", "Body"}}
NonCtx(m)    == {i \in DOMAIN m.sig : ~IsContext(m.sig[i].type)}
PrimTypes == {"string", "bool", "int", "int8", "int16", "int32", "int64", "uint", "uint8", "uint16", "uint32", "uint64", "float32", "float64"}
Deref(t) == IF IsPointer(t) THEN SubSeq(t, 2, Len(t)) ELSE t
IsSlice(t) == Len(t) >= 2 /\ SubSeq(t, 1, 2) = "[]"
ElemOf(t) == IF IsSlice(t) THEN SubSeq(t, 3, Len(t)) ELSE t
\* primitive-ish: a primitive, an enum or a primitive alias (by name through the project's type table), possibly behind a pointer
TypeByName(p, n) == {t \in Range(p.types) : t.pkg \o "." \o t.name = n}
Primitiveish(p, t) == LET d == Deref(t) IN d \in PrimTypes \/ \E ty \in TypeByName(p, d) : ty.kind \in {"enum", "alias", "aliasdecl"} /\ ty.base \in PrimTypes
ReturnsOk(p, m) ==
    /\ Len(m.ret) \in {1, 2}
    /\ LET e == m.ret[Len(m.ret)] IN e = "error" \/ \E ty \in TypeByName(p, e) : ty.kind = "struct" /\ ty.errorT

\* asBuilt = TRUE models the gap of the link validator as built: an un-aliased @Path need not correspond to any placeholder
\* (pinned by the repository's test/diagnostics expectations, hence recorded rather than repaired). The second gap found -
\* placeholders of the controller prefix never checked - was repaired in the code and is no longer modelled.
WellLinkedD(p, m, asBuilt) ==
    LET c    == CtrlOf(p, m)
        ph   == Placeholders(FullText(c, m))
        bind == [i \in PathAnns(m) |-> WireName(m.anns[i])]
    IN  /\ \A j \in DOMAIN m.anns : "rawProps" \notin DOMAIN m.anns[j]                       \* a malformed properties object (e.g. {name: 1}) is an error
        /\ \A i, j \in DOMAIN ph : i # j => ph[i] # ph[j]                                   \* no duplicate {name}
        /\ \A x \in Range(ph) : Cardinality({i \in PathAnns(m) : bind[i] = x}) = 1           \* each {name} bound exactly once
        /\ \A i \in PathAnns(m) : (asBuilt /\ m.anns[i].alias = "") \/ bind[i] \in Range(ph)  \* each @Path binds a {name}
        /\ \A i \in NonCtx(m) : Cardinality({j \in ParamAnns(m) : m.anns[j].value = m.sig[i].name}) = 1
        /\ \A j \in ParamAnns(m) : \E i \in NonCtx(m) : m.sig[i].name = m.anns[j].value
        /\ Cardinality({j \in ParamAnns(m) : m.anns[j].kind = "Body"}) <= 1
        /\ ~(\E j \in ParamAnns(m) : m.anns[j].kind = "Body") \/ ~(\E j \in ParamAnns(m) : m.anns[j].kind = "FormField")
        /\ \A j \in ParamAnns(m) : m.anns[j].kind # "Body" =>
              \A i \in NonCtx(m) : m.sig[i].name = m.anns[j].value =>
                  /\ Primitiveish(p, ElemOf(m.sig[i].type))
                  /\ (IsSlice(m.sig[i].type) => m.anns[j].kind = "Query")
        /\ ReturnsOk(p, m)
        /\ m.verb \in SupportedVerbs
WellLinked(p, m) == WellLinkedD(p, m, FALSE)

\* what the validators AS CODED accept: the recorded deviations from WellLinked, each by name (known_findings.json) -
\*   linker-gaps              an un-aliased @Path need not correspond to a placeholder            (WellLinkedD(.., TRUE))
\*   primitive-body-rejected  a @Body parameter of a primitive type is rejected (a rule the property does not state)
\*   map-param-accepted       a non-body parameter of type map[string]T passes
\* The session machine run against real traces (PipelineConform.tla) predicts acceptance with this variant.
BodyPrimitive(p, m) == \E j \in ParamAnns(m) : m.anns[j].kind = "Body" /\ \E i \in NonCtx(m) : m.sig[i].name = m.anns[j].value /\ Deref(m.sig[i].type) \in PrimTypes \cup {"time.Time"}
MapAsPrim(m) == [m EXCEPT !.sig = [i \in DOMAIN m.sig |-> IF IsMap(Deref(m.sig[i].type)) /\ (\E j \in ParamAnns(m) : m.anns[j].value = m.sig[i].name /\ m.anns[j].kind # "Body")
                                                            THEN [m.sig[i] EXCEPT !.type = "string"] ELSE m.sig[i]]]
\*   late-alias-error         a malformed 'name' property on an annotation other than @Path is not a validation error: the route
\*                            passes validation and the command fails later, while the metadata is reduced
StripRaw(m) == [m EXCEPT !.anns = [j \in DOMAIN m.anns |-> IF m.anns[j].kind # "Path" /\ "rawProps" \in DOMAIN m.anns[j]
                                                          THEN [k \in DOMAIN m.anns[j] \ {"rawProps"} |-> m.anns[j][k]] ELSE m.anns[j]]]
LateAliasError(m) == \E j \in DOMAIN m.anns : m.anns[j].kind \in {"Query", "Header", "FormField", "Body"} /\ "rawProps" \in DOMAIN m.anns[j]
WellLinkedAsCoded(p, m) == WellLinkedD(p, MapAsPrim(StripRaw(m)), TRUE) /\ ~BodyPrimitive(p, m)
\* path parameters documented for a route = its @Path wire names; the placeholders of its full path must be exactly those
PathParamsMatch(p, m) == LET c == CtrlOf(p, m) IN
                         {WireName(m.anns[i]) : i \in PathAnns(m)} = Range(Placeholders(FullText(c, m)))
=============================================================================
