SPECIFICATION Spec
CONSTANTS
  MaxLen = 4
  EmitFrom = 1
  GraphIdempotent = TRUE
  CacheTransparent = TRUE
  SerialsMemoised = TRUE
INVARIANTS Emit
CHECK_DEADLOCK FALSE
