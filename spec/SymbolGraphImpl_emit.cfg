SPECIFICATION LSpec
CONSTANTS
  DKeys = {"k1","k2"}
  UKeys = {"string"}
  FreeKinds = {"ty","ref"}
  MaxDepth = 3
  DropAdjacencyAlways = FALSE
  MaxSet = 1
VIEW iview
INVARIANTS EmitFullI
CHECK_DEADLOCK FALSE
