---------------------------- MODULE RouterTrace ----------------------------
(***************************************************************************)
(* Direction B for the router family.  Every line of router_trace.ndjson   *)
(* is one real execution: a request served by one engine's generated       *)
(* router, with what the instrumented user-side code saw (authorization    *)
(* callback calls in order with the scripted answers, the controller call  *)
(* with its arguments) and the response status; "Cmp" lines carry the      *)
(* observable outcome of the same request on the five engines.             *)
(* TLC compares each execution with RunOf (the handler machine of          *)
(* Router.tla run to completion) and prints, per broken rule,              *)
(*   VIOL <property> <line> <what>                                         *)
(* C02 dispatch: the annotated handler and no other is reached; requests   *)
(*     to verb/path pairs nobody annotated reach no controller;            *)
(* C03 the callback is asked exactly the checks RunOf lists, in order, and *)
(*     nothing is invoked / parsed unless an alternative was approved;     *)
(*     all-refused answers with the last refusal's status;                 *)
(* C05 arguments equal the canonical conversion of the request's tokens in *)
(*     signature order; missing/ill-typed => 422 and no invocation;        *)
(* C12 the five engines agree on target, arguments, status and body class. *)
(***************************************************************************)
EXTENDS Router

Trace == ndJsonDeserialize("router_trace.ndjson")
VARIABLE l

ToS(x) == {x[i] : i \in DOMAIN x}
Viol(prop, cond, what) == IF cond THEN TRUE ELSE PrintT("VIOL " \o prop \o " " \o ToString(l) \o " " \o what)

AuthEq(a, b) == Len(a) = Len(b) /\ \A i \in DOMAIN a : a[i].scheme = b[i].scheme /\ ToS(a[i].scopes) = ToS(b[i].scopes) /\ Len(a[i].scopes) = Len(b[i].scopes) /\ a[i].ok = b[i].ok

CheckRun(ev) ==
    LET hd  == [alts |-> ev.handler.alts, params |-> ev.handler.params, returnsValue |-> ev.handler.returnsValue, respCheck |-> ev.handler.respCheck,
                enumStrict |-> ev.handler.enumStrict]
        \* the status of a served request is fixed unless the validity of the returned zero value is beyond the specification
        statusFixed == ev.fail \/ ev.handler.respCheck # "unknown"
        exp == RunOf(hd, [toks |-> ev.toks], ev.script, [fail |-> ev.fail, sameErr |-> ev.sameErr, status |-> ev.setStatus, stopAt |-> ev.stopAt])
        o   == ev.obs
    IN  IF ev.probe
        THEN Viol("C02", ~o.invoked, "a request to a verb/path nobody annotated reached a controller")
        ELSE /\ Viol("C14", ~o.panicked, "the generated handler crashed")
             /\ Viol("C03", o.panicked \/ AuthEq(o.auth, exp.auth), "authorization callback calls differ from the route's effective security under this script")
             /\ Viol("C03", exp.outcome # "refused" \/ (~o.invoked /\ (o.panicked \/ o.status = exp.status)), "every alternative was refused, yet the controller ran or the status is not the last refusal's")
             /\ Viol("C02", ~o.invoked \/ o.target = ev.target, "the request reached another method than the annotated one")
             /\ Viol("C02", exp.outcome # "invoked" \/ o.invoked \/ o.panicked, "the annotated route did not reach its method")
             /\ Viol("C05", exp.outcome # "rejected" \/ o.panicked \/ (~o.invoked /\ o.status = 422), "a missing / non-convertible parameter was not answered 422 without invoking the method")
             /\ Viol("C05", exp.outcome # "invoked" \/ ~o.invoked \/ o.args = exp.args, "arguments received by the controller differ from the request's values")
             /\ Viol("C05", exp.outcome # "invoked" \/ ~o.invoked \/ ~statusFixed \/ o.status = exp.status, "status of a served request differs from the expected one")
             \* user middlewares: exactly the stages the handler machine passes through, in registration order, stopping where scripted
             \* (when the validity of the returned zero value is unknown the onOutput / after stages are not constrained)
             /\ Viol("C03", exp.outcome # "refused" \/ o.panicked \/ o.mw = <<>>, "a user middleware ran although every security alternative was refused")
             /\ Viol("C12", o.panicked \/ ~statusFixed \/ exp.outcome \in {"refused", "open"} \/ o.mw = exp.mw, "user middlewares invoked differ from the handler machine's stages")
             /\ Viol("C12", exp.outcome \notin {"stopped", "rejected-stopped"} \/ o.panicked \/ (o.status = 418 /\ (exp.outcome = "stopped" => ~o.invoked)), "a middleware said stop, yet the handler went on")

CheckCmp(ev) == Viol("C12", \A i, j \in DOMAIN ev.outcomes : ev.outcomes[i] = ev.outcomes[j], "engines disagree")

TraceInit == l = 1 /\ h = 0 /\ req = 0 /\ script = 0 /\ st = 0 /\ ropts = 0        \* the machine variables of Router.tla are not used here
TraceNext == /\ l <= Len(Trace) /\ UNCHANGED rvars
             /\ IF Trace[l].ev = "Run" THEN CheckRun(Trace[l]) ELSE CheckCmp(Trace[l])
             /\ l' = l + 1
TraceSpec == TraceInit /\ [][TraceNext]_<<l, rvars>>
TraceAccepted == TLCGet("stats").diameter - 1 = Len(Trace)
=============================================================================
