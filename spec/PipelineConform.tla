--------------------------- MODULE PipelineConform ---------------------------
(***************************************************************************)
(* Direction B for the pipeline family, with the session machine's OWN     *)
(* actions: every real CLI run of a TLC-generated project is replayed      *)
(* through Pipeline.tla.                                                   *)
(*                                                                         *)
(* pipeline_conform.ndjson holds, per run, a header                        *)
(*     {"event":"Run", "case": <the project exactly as TLC printed it,     *)
(*                              cfg extended with cmd / version / asCoded>} *)
(* followed by the hook events of that run (emitted by the code after each *)
(* critical section) and the harness' Exit measurement.  A line is         *)
(* consumed iff it is explained by the Pipeline action it belongs to, taken *)
(* in the state the machine is in - so the machine PREDICTS the run: which *)
(* branch LoadConfig and Validate take (ConfigValid, ErrorDiags over the   *)
(* project - acceptance "as coded", i.e. with the recorded deviations of   *)
(* Project!WellLinkedAsCoded), whether BuildSpec30 fails on an undeclared  *)
(* scheme, whether the 3.1 stages run (cfg.version), whether routes are    *)
(* written (cfg.cmd), and the exit status.  A line the machine cannot      *)
(* explain is not consumed: the run is REJECTED at that line (printed as   *)
(* "REJECT <line> <event> pc=<pc>"), the machine resynchronises at the     *)
(* next Run header and the rest of the log is still examined.              *)
(*                                                                         *)
(* Grain of atomicity: GraphGenerated = the composition of the VisitFile   *)
(* steps (Pipeline!VisitAll); ConfigRead, PackagesLoad after the first,    *)
(* RoutesRendered/RoutesFormatted, Permute are implementation steps inside *)
(* one specification action (stuttering).  A failing BuildSpec30 has no    *)
(* event of its own: it is taken silently when the Exit line arrives in    *)
(* state "spec30" (bounded: at most one silent step per consumed line).    *)
(***************************************************************************)
EXTENDS Pipeline

Trace == ndJsonDeserialize("pipeline_conform.ndjson")

VARIABLES l,        \* position in Trace
          synced    \* FALSE after a rejected line until the next Run header
cvars == <<vars, l, synced>>

Ev == Trace[l]
Is(e) == l <= Len(Trace) /\ Trace[l].event = e
Advance == l' = l + 1

\* a new run: the machine restarts on the project the header carries
TRun == /\ Is("Run")
        /\ proj' = Ev.case /\ pc' = "config" /\ pending' = {} /\ visited' = <<>> /\ order' = <<>> /\ serial' = <<>>
        /\ fsys' = NoFs /\ valid30' = FALSE /\ valid31' = FALSE /\ exit' = [code |-> 9, msg |-> ""]
        /\ synced' = TRUE /\ Advance

Stutter(e) == Is(e) /\ synced /\ UNCHANGED vars /\ UNCHANGED synced /\ Advance

\* LoadConfig: the branch the machine takes must be the one the code took
TConfigAccepted == Is("ConfigAccepted") /\ synced /\ LoadConfig /\ pc' = "load" /\ UNCHANGED synced /\ Advance
TConfigRejected == Is("ConfigRejected") /\ synced /\ LoadConfig /\ pc' = "failed" /\ UNCHANGED synced /\ Advance
TPackagesLoad   == Is("PackagesLoad") /\ synced /\ UNCHANGED synced /\ Advance
                   /\ IF pc = "load" THEN LoadPackages ELSE (pc \in {"visit", "validate", "reduce"} /\ UNCHANGED vars)   \* later loads are lazy, inside GenerateGraph
TGraphGenerated == Is("GraphGenerated") /\ synced /\ Ev.ok /\ VisitAll /\ UNCHANGED synced /\ Advance
\* Validate: the number of entities carrying errors is logged; the machine's verdict (ErrorDiags over the project) must agree
TValidated == /\ Is("Validated") /\ synced /\ Validate
              /\ (Ev.errorEntities > 0) <=> (pc' = "failed")
              /\ UNCHANGED synced /\ Advance
TRunFailed == Is("RunFailedOnDiagnostics") /\ synced /\ pc = "failed" /\ UNCHANGED vars /\ UNCHANGED synced /\ Advance
TReduced   == Is("Reduced") /\ synced /\ Reduce /\ (Ev.ok <=> pc' # "failed") /\ UNCHANGED synced /\ Advance
TRoutesWritten == Is("RoutesWritten") /\ synced /\ WriteRoutes /\ UNCHANGED synced /\ Advance
TSpec30Built == Is("Spec30Built") /\ synced /\ BuildSpec30 /\ pc' = "valid30" /\ UNCHANGED synced /\ Advance
TSpec30Validated == Is("Spec30Validated") /\ synced /\ ValidateSpec30 /\ (Ev.ok <=> pc' # "failed") /\ UNCHANGED synced /\ Advance
TSpec31Built == Is("Spec31Built") /\ synced /\ BuildSpec31 /\ UNCHANGED synced /\ Advance
TSpec31Validated == Is("Spec31Validated") /\ synced /\ Ev.ok /\ ValidateSpec31 /\ UNCHANGED synced /\ Advance
TSpecWritten == Is("SpecWritten") /\ synced /\ WriteSpec /\ Ev.version = proj.cfg.version /\ UNCHANGED synced /\ Advance
\* the end of the run as the harness measured it
ExitOk == ~Ev.panicked /\ ~Ev.timedOut
TExit == /\ Is("Exit") /\ synced /\ ExitOk
         /\ \/ pc = "done" /\ Ev.code = 0 /\ UNCHANGED vars
            \/ pc = "failed" /\ Ev.code = 1 /\ ~Ev.msgEmpty /\ UNCHANGED vars
            \/ pc = "spec30" /\ Ev.code = 1 /\ ~Ev.msgEmpty /\ BuildSpec30 /\ pc' = "failed"      \* the silent failing BuildSpec30
         /\ UNCHANGED synced /\ Advance

Explained == \/ TRun \/ TConfigAccepted \/ TConfigRejected \/ TPackagesLoad \/ TGraphGenerated \/ TValidated \/ TRunFailed
             \/ TReduced \/ TRoutesWritten \/ TSpec30Built \/ TSpec30Validated \/ TSpec31Built \/ TSpec31Validated \/ TSpecWritten \/ TExit
             \/ Stutter("ConfigRead") \/ Stutter("RoutesRendered") \/ Stutter("RoutesFormatted") \/ Stutter("Permute") \/ Stutter("FsDelta")

\* a line nothing explains: reported, and everything up to the next Run header is skipped
Reject == /\ l <= Len(Trace) /\ ~ENABLED Explained
          /\ (synced => PrintT("REJECT " \o ToString(l) \o " " \o Trace[l].event \o " pc=" \o pc))
          /\ synced' = FALSE /\ UNCHANGED vars /\ Advance

CNext == Explained \/ Reject
NoProj == [cfg |-> [engine |-> "", version |-> "", enforce |-> FALSE, default |-> NoSec, schemes |-> <<>>], ctrls |-> <<>>, methods |-> <<>>, types |-> <<>>]
CInit == /\ proj = NoProj /\ pc = "author" /\ pending = {} /\ visited = <<>> /\ order = <<>> /\ serial = <<>> /\ fsys = NoFs
         /\ valid30 = FALSE /\ valid31 = FALSE /\ exit = [code |-> 9, msg |-> ""]
         /\ l = 1 /\ synced = FALSE
CSpec == CInit /\ [][CNext]_cvars

Consumed == TLCGet("stats").diameter - 1 = Len(Trace)
=============================================================================
