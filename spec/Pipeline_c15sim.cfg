SPECIFICATION SimSpec
CONSTANTS
  CfgChoices <- CfgsC15
  CtrlChoices <- CtrlsC15
  MethodChoices <- MethodsC15
  TypeChoices <- NoTypes
  MaxCtrls = 3
  MaxMethods = 3
  SortBeforeReduce = TRUE
INVARIANTS EmitCase C02_DocSubsetServed
CHECK_DEADLOCK FALSE
