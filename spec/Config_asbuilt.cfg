SPECIFICATION Spec
CONSTANTS
  MaxEdits = 1
  Editable <- MC_PermFields
  UseBad = FALSE
  UseGood = TRUE
  AllowedTokens <- MC_NoFilter
  StaleChoices <- MC_Both
  ChmodExisting = FALSE
  KindLabel = "asbuilt"
INVARIANTS TypeOK BaseIsValid C20_RejectedIsFinal C20_OnlyValidProceeds C20_Honoured Emit
PROPERTIES C20_ConfigFirst
CHECK_DEADLOCK FALSE
