SPECIFICATION Spec
CONSTANTS
  MaxLen = 4
  EmitFrom = 100
  GraphIdempotent = TRUE
  CacheTransparent = TRUE
  SerialsMemoised = TRUE
  ScopeFixed = FALSE
  TouchInvisible = TRUE
INVARIANTS C19_GraphStable
CHECK_DEADLOCK FALSE
