SPECIFICATION Spec
CONSTANTS
  MaxLen = 4
  EmitFrom = 100
  GraphIdempotent = TRUE
  CacheTransparent = TRUE
  SerialsMemoised = TRUE
  ScopeFixed = FALSE
INVARIANTS C19_GraphStable
CHECK_DEADLOCK FALSE
