SPECIFICATION TraceSpec
CONSTANTS
  HandlerChoices = {}
  ScriptChoices = {}
POSTCONDITION TraceAccepted
CHECK_DEADLOCK FALSE
