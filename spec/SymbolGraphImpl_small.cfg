SPECIFICATION LSpec
CONSTANTS
  DKeys = {"k1","k2"}
  UKeys = {"string"}
  FreeKinds = {"ty","ref"}
  MaxDepth = 4
  DropAdjacencyAlways = FALSE
  MaxSet = 1
VIEW iview
INVARIANTS TypeOK ITypeOK Refines IndexAgree Confluent C17_InOutAgree C17_ViewsAgree
CHECK_DEADLOCK FALSE
