--------------------------- MODULE AnnotationsMC ---------------------------
EXTENDS Annotations

AllSingle == AnnLines \cup FreeLines

PN == P("{name: \"x\"}", "{\"name\":\"x\"}", FALSE)
PB == P("{name: }", "", TRUE)
\* a reduced line set for exhaustive blocks: every block-level rule has a representative
BlockLines == { A("Route", "/a/{b}", NoProps, D(NONE, FALSE)),
                A("Description", NONE, NoProps, D("some text", FALSE)),
                A("Description", NONE, NoProps, D(NONE, FALSE)),
                A("Query", "id", PN, D("<U1> text <U1>", FALSE)),
                A("Query", "id", PB, D("some text", FALSE)),
                A("Query", "id", PN, D("returns {a: (b)})", TRUE)),
                F("// plain text", "plain text"), F("//", ""), F("// <U1> free", "<U1> free"), F("// @Route(a.b)", "@Route(a.b)") }
=============================================================================
