SPECIFICATION Spec
CONSTANTS
  DKeys = {"k1","k2"}
  UKeys = {"string"}
  FreeKinds = {"ty","ref"}
  MaxDepth = 4
  MaxSet = 1
VIEW view
INVARIANTS EmitFull
CHECK_DEADLOCK FALSE
