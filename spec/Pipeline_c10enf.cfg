SPECIFICATION Spec
CONSTANTS
  CfgChoices <- CfgsC10enf
  CtrlChoices <- CtrlsC10core
  MethodChoices <- MethodsC10enf
  TypeChoices <- StdTypes
  MaxCtrls = 1
  MaxMethods = 1
  SortBeforeReduce = TRUE
INVARIANTS EmitCase
CHECK_DEADLOCK FALSE
