----------------------------- MODULE PathTrie -----------------------------
(***************************************************************************)
(* Route-conflict detection (property C15), core/validators/paths.         *)
(*                                                                         *)
(* State: the list of routes handed to the detector so far (one Insert per *)
(* discovered route, exactly as FindConflicts consumes its argument).      *)
(*                                                                         *)
(* Two levels:                                                             *)
(*  - declarative: Overlap, Pairs(list), Flagged(list) — what C15 demands; *)
(*  - operational: ImplRun(list), a transcription of the trie walk of      *)
(*    paths.go (registered endpoints, the three report helpers, the        *)
(*    duplicate check and the `seen` de-duplication key).  The trie itself *)
(*    is represented by the set of registered entries: "endpoint r lies in *)
(*    the subtree below the node reached by the first i-1 segments of e,   *)
(*    via a literal/parameter child" is a predicate on shapes.             *)
(* DedupByText = TRUE models the de-duplication key made of the two raw    *)
(* path texts and the reason text; FALSE keys it by the entries themselves *)
(* (what the property needs).  TLC shows: with FALSE the operational model *)
(* satisfies C15 for every list within the bounds, with TRUE it does not.  *)
(***************************************************************************)
EXTENDS Naturals, Sequences, FiniteSets, TLC, Json

CONSTANTS Templates,     \* set of records [segs : Seq(STRING), form : STRING]
          Verbs,         \* e.g. {"GET","POST"}
          MaxLen,        \* bound on the list length
          DedupByText    \* BOOLEAN, see above

VARIABLE list            \* Seq([verb, segs, form])

IsParam(s) == Len(s) >= 2 /\ SubSeq(s, 1, 1) = "{" /\ SubSeq(s, Len(s), Len(s)) = "}"

RECURSIVE Join(_, _)
Join(segs, i) == IF i > Len(segs) THEN "" ELSE (IF i > 1 THEN "/" ELSE "") \o segs[i] \o Join(segs, i + 1)

RECURSIVE JoinD(_, _)
JoinD(segs, i) == IF i > Len(segs) THEN "" ELSE (IF i > 1 THEN "//" ELSE "") \o segs[i] \o JoinD(segs, i + 1)

\* the raw text handed to the detector; normalisation must forget the form
Render(e) ==
    LET body == Join(e.segs, 1) IN
    CASE e.form = "plain"  -> "/" \o body
      [] e.form = "nolead" -> body
      [] e.form = "trail"  -> "/" \o body \o (IF e.segs = <<>> THEN "" ELSE "/")
      [] e.form = "dbl"    -> "//" \o body
      [] e.form = "dtrail" -> "/" \o body \o (IF e.segs = <<>> THEN "/" ELSE "//")        \* two trailing slashes
      [] e.form = "dmid"   -> "/" \o JoinD(e.segs, 1)                                      \* doubled slashes between segments
      [] OTHER             -> "/" \o body

--------------------------------------------------------------------------
(* Declarative level                                                      *)

Overlap(a, b) == /\ Len(a) = Len(b)
                 /\ \A i \in DOMAIN a : a[i] = b[i] \/ IsParam(a[i]) \/ IsParam(b[i])

Conflicting(L, i, j) == i # j /\ L[i].verb = L[j].verb /\ Overlap(L[i].segs, L[j].segs)
Pairs(L)   == {p \in SUBSET (DOMAIN L) : Cardinality(p) = 2 /\ \E i, j \in p : Conflicting(L, i, j)}
Flagged(L) == {i \in DOMAIN L : \E j \in DOMAIN L : Conflicting(L, i, j)}

--------------------------------------------------------------------------
(* Operational level: transcription of FindConflicts                      *)

ShapeSeg(s)   == IF IsParam(s) THEN "{}" ELSE s
SameShape(a, b) == Len(a) = Len(b) /\ \A i \in DOMAIN a : ShapeSeg(a[i]) = ShapeSeg(b[i])

\* registered same-verb endpoints below the node reached by the first idx-1 segments of entry n
Mates(L, reg, n, idx) ==
    {r \in reg : /\ L[r].verb = L[n].verb
                 /\ Len(L[r].segs) >= idx
                 /\ \A j \in 1..(idx - 1) : ShapeSeg(L[r].segs[j]) = ShapeSeg(L[n].segs[j])}

Key(L, n, r, kind, idx, dt) ==
    IF dt
    THEN IF kind = "DUP"
         THEN <<{Render(L[n]), Render(L[r])}, "DUP">>
         ELSE <<{Render(L[n]), Render(L[r])}, kind, L[n].segs[idx], L[n].verb, Render(L[n]), L[r].segs[idx], Render(L[r])>>
    ELSE IF kind = "DUP"
         THEN <<{n, r}, "DUP">>
         ELSE <<{n, r}, kind, L[n].segs[idx], L[r].segs[idx]>>

ReportsAt(L, reg, n, idx, dt) ==
    LET seg == L[n].segs[idx]
        ms  == {r \in Mates(L, reg, n, idx) : Overlap(L[n].segs, L[r].segs)}
    IN  IF IsParam(seg)
        THEN {[other |-> r, key |-> Key(L, n, r, IF IsParam(L[r].segs[idx]) THEN "PP" ELSE "PL", idx, dt)] : r \in ms}
        ELSE {[other |-> r, key |-> Key(L, n, r, "LP", idx, dt)] : r \in {x \in ms : IsParam(L[x].segs[idx])}}

Existing(L, reg, n) == {r \in reg : L[r].verb = L[n].verb /\ SameShape(L[r].segs, L[n].segs)}

Reports(L, reg, n, dt) ==
    UNION {ReportsAt(L, reg, n, idx, dt) : idx \in DOMAIN L[n].segs}
    \cup {[other |-> r, key |-> Key(L, n, r, "DUP", 0, dt)] : r \in Existing(L, reg, n)}

RECURSIVE Run(_, _, _, _)
\* st = [reg, seen, pairs]
Run(L, n, st, dt) ==
    IF n > Len(L) THEN st
    ELSE LET reps  == Reports(L, st.reg, n, dt)
             fresh == {rp \in reps : rp.key \notin st.seen}
         IN  Run(L, n + 1,
                 [reg   |-> IF Existing(L, st.reg, n) = {} THEN st.reg \cup {n} ELSE st.reg,
                  seen  |-> st.seen \cup {rp.key : rp \in reps},
                  pairs |-> st.pairs \cup {{n, rp.other} : rp \in fresh}], dt)

ImplRunD(L, dt) == Run(L, 1, [reg |-> {}, seen |-> {}, pairs |-> {}], dt)
ImplPairsD(L, dt)   == ImplRunD(L, dt).pairs
ImplFlaggedD(L, dt) == UNION ImplPairsD(L, dt)
ImplPairs(L)   == ImplPairsD(L, DedupByText)
ImplFlagged(L) == ImplFlaggedD(L, DedupByText)

--------------------------------------------------------------------------
Entries == {[verb |-> v, segs |-> t.segs, form |-> t.form] : v \in Verbs, t \in Templates}

Init == list = <<>>
Insert(e) == Len(list) < MaxLen /\ list' = Append(list, e)
Next == \E e \in Entries : Insert(e)
Spec == Init /\ [][Next]_list

\* random lists for -simulate (single successor, see SymbolGraph.tla)
SimNext == Len(list) < MaxLen /\ \E e \in {RandomElement(Entries)} : Insert(e)
SimSpec == Init /\ [][SimNext]_list

--------------------------------------------------------------------------
(* C15                                                                    *)
C15_Sound     == \A p \in ImplPairs(list) : \E i, j \in p : Conflicting(list, i, j)
C15_Complete  == ImplFlagged(list) = Flagged(list)
\* order-freedom: the set of flagged entries, as identities, is the same whatever the discovery order. Entry identity
\* across permutations = position in the original list; with soundness+completeness this is implied, and TLC checks it
\* directly on every state for all rotations and the reversal of the list (the exhaustive run contains all permutations
\* as separate states, each of which satisfies C15_Complete on its own).
Perm(L, f) == [i \in DOMAIN L |-> L[f[i]]]
Rev(L)     == [i \in DOMAIN L |-> L[Len(L) + 1 - i]]
C15_OrderFree == LET n == Len(list) IN
                 n >= 2 => {n + 1 - i : i \in ImplFlagged(Rev(list))} = ImplFlagged(list)

\* what the two switch settings predict, for emission
Emit == PrintT("CASE " \o ToJson([
            list     |-> [i \in DOMAIN list |-> [verb |-> list[i].verb, path |-> Render(list[i]), segs |-> list[i].segs, form |-> list[i].form]],
            flagged  |-> Flagged(list),
            pairs    |-> Pairs(list),
            asbuilt  |-> ImplFlaggedD(list, TRUE),
            keyed    |-> ImplFlaggedD(list, FALSE)]))
=============================================================================
