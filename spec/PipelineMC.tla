---------------------------- MODULE PipelineMC ----------------------------
(* Choice sets for Pipeline (TLC configuration files cannot hold records). *)
EXTENDS Pipeline

S(n, sc) == [scheme |-> n, scopes |-> sc]
Cfg(engine, version, enforce, default, schemes) ==
    [engine |-> engine, version |-> version, enforce |-> enforce, default |-> default, schemes |-> schemes]
Ctl(pkg, file, name, prefix, tag, sec) == [pkg |-> pkg, file |-> file, name |-> name, prefix |-> prefix, tag |-> tag, sec |-> sec, desc |-> ""]
Mth(file, verb, route, hidden, deprecated, sec) ==
    [file |-> file, verb |-> verb, route |-> route, hidden |-> hidden, deprecated |-> deprecated, sec |-> sec,
     ret |-> <<"error">>, errors |-> <<>>, response |-> 0, desc |-> ""]

SecShapes == { <<>>, <<S("s1", <<>>)>>, <<S("s1", <<"r">>), S("s2", <<"w", "x">>)>>, <<S("s2", <<>>), S("s2", <<"r">>)>>, <<S("s2", <<"w">>), S("s1", <<>>)>>,
               <<S("s2", <<"w", "x", "r", "w">>)>>,         \* (a scope listed twice among others: lists are kept as written)
               <<S("s2", <<"r", "w">>), S("s2", <<"r">>), S("s1", <<"r">>), S("s1", <<>>)>>,    \* one scheme again with fewer / no scopes: distinct alternatives
               <<S("s1", <<"r">>), S("s2", <<>>), S("s1", <<"r">>), S("s2", <<"w">>)>> }       \* an alternative written twice among others: kept as written, in order
SecShapesU == SecShapes \cup { <<S("s9", <<>>)>>, <<S("S1", <<"r">>)>> }       \* s9 is never declared; nor is S1 (names are case-sensitive)

\* ---- C04: one route, every combination of the three security levels, enforce, default, declared/undeclared -------------
CfgsC04 == { Cfg("gin", v, e, d, <<"s1", "s2">>) : v \in {"3.0.0", "3.1.0"}, e \in BOOLEAN, d \in {NoSec, S("s1", <<"d">>)} }
CtrlsC04 == { Ctl("p1", "f1", "AController", "/a", "A", sec) : sec \in SecShapesU }
MethodsC04 == { Mth("", "GET", "/x", h, FALSE, sec) : h \in BOOLEAN, sec \in SecShapesU }

\* ---- C01: routes, prefixes, verbs, hidden/deprecated, two controllers, foreign files --------------------------------
CfgsC01 == { Cfg("gin", v, FALSE, NoSec, <<"s1", "s2">>) : v \in {"3.0.0", "3.1.0"} }
\* (tag "" = no @Tag; together with prefix "" the controller has no doc comment at all)
\* (package "p1/f1x": a nested package whose directory sorts BETWEEN the files f1.go and f2.go of its parent - the files of one
\*  package are then not adjacent in path order)
CtrlsC01 == { Ctl(pk, f, n, pre, tg, <<>>) : pk \in {"p1", "p2", "p1/f1x"}, f \in {"f1", "f2"}, n \in {"AController", "BController"}, pre \in {"", "/a", "/a/", "/{t}", "/b"}, tg \in {"Tag", ""} }
MethodsC01 == { Mth(f, v, r, h, d, <<>>) : f \in {"", "f2"}, v \in {"GET", "POST", "DELETE"}, r \in {"/", "/x", "x", "//x", "/x/", "/{id}", "/{id}/y", "/{key}"},
                                           h \in BOOLEAN, d \in BOOLEAN }

\* the core of the path space: one controller, two methods; every pairing of slash spellings and verbs on (possibly) the same path
CtrlsC01core == { Ctl("p1", "f1", "AController", pre, "A", <<>>) : pre \in {"/a", "/a/"} }
MethodsC01core == { Mth("", v, r, FALSE, FALSE, <<>>) : v \in {"GET", "POST", "DELETE"}, r \in {"/x", "//x", "/", "/{id}", "/{key}"} }

\* ---- C15 at project level: few verbs, overlapping literal/parameter routes under prefixes that create or remove the overlap -----
CfgsC15 == { Cfg("gin", "3.0.0", FALSE, NoSec, <<"s1">>) }
CtrlsC15 == { Ctl(pk, "f1", n, pre, n, <<>>) : pk \in {"p1", "p2"}, n \in {"AController", "BController", "CController"}, pre \in {"", "/a", "/a/", "/{t}", "/b"} }
MethodsC15 == { Mth("", v, r, FALSE, FALSE, <<>>) : v \in {"GET", "POST"}, r \in {"/x", "//x", "/{id}", "/x/{id}", "/{id}/y", "/x/y", "/y"} }

\* ---- simulation: everything together ----------------------------------------------------------------------------------
CfgsSim == { Cfg(en, v, e, d, <<"s1", "s2">>) : en \in {"gin", "echo", "mux", "chi", "fiber"}, v \in {"3.0.0", "3.1.0"}, e \in BOOLEAN, d \in {NoSec, S("s1", <<"d">>)} }
CtrlsSim == { Ctl(pk, f, n, pre, tg, sec) : pk \in {"p1", "p2", "p1/f1x"}, f \in {"f1", "f2"}, n \in {"AController", "BController", "CController"},
                                            pre \in {"", "/a", "/a/", "/{t}", "/b", "/c/d"}, tg \in {"A", "Tag B", ""}, sec \in SecShapes }
CtrlsSimD == { [c EXCEPT !.desc = ds] : c \in CtrlsSim, ds \in {"", "\n", "A controller\n"} }
\* doc-comment layouts: no free text, plain text, nothing but blank comment lines, text followed / preceded by blank lines
DescChoices == {"", "Does something", "\n", "\nText after a blank line", "Text\n\nmore text\n"}
\* (doc-comment layout and annotation spelling vary together: five variants instead of their product)
Spellings == { <<"", "", "">>, <<"Does something", "(INTERNAL)", "">>, <<"\n", "", " use the v2 route instead">>,
               <<"\nText after a blank line", " not for the public docs", "">>, <<"Text\n\nmore text\n", "", "">> }
MethodsSim == { [Mth(f, v, r, h, d, sec) EXCEPT !.desc = sp[1]] @@ [hiddenSfx |-> sp[2], deprecatedSfx |-> sp[3]] :
                                          f \in {"", "f1", "f2"}, v \in {"GET", "POST", "PUT", "DELETE", "PATCH"},
                                          r \in {"/", "/x", "x", "//x", "/x/", "/{id}", "/{id}/y", "/x/{id}", "/y", "/{key}"}, h \in BOOLEAN, d \in BOOLEAN, sec \in SecShapes,
                                          sp \in Spellings }
\* ---- C06: parameter lists, pointer-ness, locations, aliases, validators, return shapes, error responses --------------------
NoTypes == {<<>>}
Fld(n, t, js, v) == [name |-> n, type |-> t, json |-> js, valid |-> v, desc |-> "", embed |-> FALSE, deprecated |-> FALSE]
FldD(n, t, js, v) == [Fld(n, t, js, v) EXCEPT !.deprecated = TRUE]      \* a field carrying its own "// @Deprecated" annotation
Con(n, v) == [name |-> n, value |-> v]
ConF(n, v, f) == [name |-> n, value |-> v, file |-> f]       \* a constant declared in another file of the enum's package
TItem  == [pkg |-> "p1", file |-> "types", name |-> "Item", kind |-> "struct", base |-> "", fields |-> <<Fld("Name", "string", "name", "required"), Fld("Count", "*int", "count", "")>>,
           consts |-> <<>>, desc |-> "An item", raw |-> "", errorT |-> FALSE, deprecated |-> FALSE]
TMyErr == [pkg |-> "p1", file |-> "types", name |-> "MyErr", kind |-> "struct", base |-> "", fields |-> <<Fld("Code", "int", "code", "")>>,
           consts |-> <<>>, desc |-> "", raw |-> "", errorT |-> TRUE, deprecated |-> FALSE]
TColor == [pkg |-> "p1", file |-> "types", name |-> "Color", kind |-> "enum", base |-> "string", fields |-> <<>>,
           consts |-> <<Con("Red", "\"red\""), Con("Blue", "\"blue\"")>>, desc |-> "", raw |-> "", errorT |-> FALSE, deprecated |-> FALSE]
StdTypes == {<<TItem, TMyErr, TColor>>}

Prm(n, t, k, al, v) == [name |-> n, type |-> t, kind |-> k, alias |-> al, validate |-> v]
ParamsC06 ==
    { Prm(n, t, "Path", al, "") : n \in {"a"}, t \in {"string", "int", "p1.Color", "float32", "int8"}, al \in {"", "x_a", "x-a"} }
    \cup { Prm(n, t, "Query", al, v) : n \in {"b"}, t \in {"string", "*string", "int", "*int", "bool", "float64", "float32", "*float32", "int8", "uint8", "uint", "int64", "[]string", "[]int", "p1.Color", "*p1.Color"},
                                         al \in {"", "x-b"}, v \in {"", "required", "omitempty"} }
    \cup { Prm(n, t, "Header", al, v) : n \in {"c"}, t \in {"string", "*string", "int", "*bool", "float32", "uint8"}, al \in {"", "X-C"}, v \in {"", "required"} }
    \cup { Prm(n, t, "FormField", al, v) : n \in {"d"}, t \in {"string", "*int", "bool"}, al \in {"", "x_d"}, v \in {"", "required"} }
    \cup { Prm(n, t, "Body", "", v) : n \in {"e"}, t \in {"p1.Item", "*p1.Item", "[]p1.Item"}, v \in {"", "required"} }
    \cup { Prm("ctx", "context.Context", "Context", "", "") }

\* ---- C05 / C12: declared validators and enum strictness, as the handler machine understands them (Router!RulePasses, EnumRejected) ----
ParamsVal ==
       { Prm("b", "string", k, "", v) : k \in {"Query", "Header", "FormField"}, v \in {"oneof=abc a+b", "required,max=3", "omitempty,oneof=abc a+b"} }
  \cup { Prm("b", "int", k, "", v) : k \in {"Query", "Header", "FormField"}, v \in {"gte=1", "required,gte=1"} }
  \cup { Prm("a", "int", "Path", "", "gte=1"), Prm("b", "*int", "Query", "", "omitempty,gte=1"), Prm("a", "string", "Path", "", "oneof=abc a+b") }
  \cup { Prm("b", t, k, "", "") : t \in {"p1.Color", "*p1.Color"}, k \in {"Query", "Header", "FormField"} } \cup { Prm("a", "p1.Color", "Path", "", "") }

Wire(pm) == IF pm.alias # "" THEN pm.alias ELSE pm.name
RECURSIVE RouteFor(_, _)
RouteFor(ps, i) == IF i > Len(ps) THEN "" ELSE (IF ps[i].kind = "Path" THEN "/{" \o Wire(ps[i]) \o "}" ELSE "") \o RouteFor(ps, i + 1)
SigOf(ps)  == [i \in DOMAIN ps |-> [name |-> ps[i].name, type |-> ps[i].type]]
RECURSIVE AnnsOf(_, _)
AnnsOf(ps, i) == IF i > Len(ps) THEN <<>>
                 ELSE (IF ps[i].kind = "Context" THEN <<>> ELSE <<[kind |-> ps[i].kind, value |-> ps[i].name, alias |-> ps[i].alias, validate |-> ps[i].validate, desc |-> ""]>>) \o AnnsOf(ps, i + 1)
ParamListOk(ps) == /\ \A i, j \in DOMAIN ps : i # j => ps[i].name # ps[j].name
                   /\ Cardinality({i \in DOMAIN ps : ps[i].kind = "Body"}) <= 1
                   /\ ~((\E i \in DOMAIN ps : ps[i].kind = "Body") /\ (\E i \in DOMAIN ps : ps[i].kind = "FormField"))
\* single parameters exhaustively; pairs and triples over a reduced set (one representative per location/pointer-ness)
ParamsPair == { Prm("a", "string", "Path", "", ""), Prm("a", "int", "Path", "x_a", ""), Prm("a", "string", "Path", "x-a", ""), Prm("b", "*int", "Query", "", ""), Prm("b", "[]string", "Query", "x-b", "required"),
                Prm("c", "*string", "Header", "X-C", ""), Prm("c", "int", "Header", "", ""), Prm("d", "string", "FormField", "", ""), Prm("d", "*int", "FormField", "x_d", "required"),
                Prm("e", "p1.Item", "Body", "", ""), Prm("e", "*p1.Item", "Body", "", ""), Prm("ctx", "context.Context", "Context", "", "") }
ParamLists == {<<>>} \cup {<<a>> : a \in ParamsC06} \cup {ps \in {<<a, b>> : a \in ParamsPair, b \in ParamsPair} : ParamListOk(ps)}
              \cup {ps \in {<<Prm("ctx", "context.Context", "Context", "", ""), a, b>> : a \in ParamsPair, b \in ParamsPair} : ParamListOk(ps)}
E(code) == [code |-> code, desc |-> ""]
RetShapes == { <<"error">>, <<"string", "error">>, <<"p1.Item", "error">>, <<"[]p1.Item", "error">>, <<"*p1.Item", "error">>, <<"p1.MyErr">>, <<"p1.Item", "p1.MyErr">> }
MthP(verb, ps, ret, errs, resp) ==
    [file |-> "", verb |-> verb, route |-> RouteFor(ps, 1), uniq |-> TRUE, hidden |-> FALSE, deprecated |-> FALSE, sec |-> <<>>,
     sig |-> SigOf(ps), anns |-> AnnsOf(ps, 1), ret |-> ret, errors |-> errs, response |-> resp, desc |-> ""]
\* every single parameter kind exhaustively (one method per project, both dialects through the main + alt runs)
CfgsC06one == { Cfg("gin", "3.0.0", FALSE, NoSec, <<"s1", "oa1">>) }        \* (oa1: an oauth2 scheme with two flows)
MethodsC06single == { MthP("POST", <<a>>, <<"p1.Item", "error">>, <<E(500)>>, 0) : a \in ParamsC06 }
CfgsC06 == { Cfg("gin", v, FALSE, NoSec, <<"s1", "oa1">>) : v \in {"3.0.0", "3.1.0"} }
CtrlsC06 == { Ctl("p1", "f1", "AController", "/a", "A", <<>>) }
MethodsC06 == { MthP(verb, ps, ret, errs, resp) : verb \in {"POST"}, ps \in ParamLists, ret \in RetShapes,
                                                    errs \in {<<>>, <<E(500)>>, <<E(400), E(500)>>}, resp \in {0, 201, 204} }
\* the response side on its own: every return shape x every declared success code (incl. 204 on a value-returning method) x error lists
MethodsC06resp == { MthP("POST", <<>>, ret, errs, resp) : ret \in RetShapes, errs \in {<<>>, <<E(500)>>, <<E(400), E(500)>>}, resp \in {0, 200, 201, 202, 204} }

CfgVal(vt, v) == [engine |-> "gin", version |-> v, enforce |-> FALSE, default |-> NoSec, schemes |-> <<"s1">>,
                  validateTopLevelOnlyEnum |-> vt, generateEnumValidator |-> FALSE, validateResponsePayload |-> FALSE]
CfgsC05val == { CfgVal(vt, "3.0.0") : vt \in BOOLEAN }
MethodsC05val == { MthP("POST", <<a>>, <<"error">>, <<>>, 0) : a \in ParamsVal }
                 \cup { MthP("POST", <<Prm("a", "int", "Path", "", "gte=1"), Prm("b", "p1.Color", "Query", "", ""), Prm("c", "string", "Header", "", "oneof=abc a+b")>>, <<"p1.Item", "error">>, <<>>, 0) }

\* ---- C05 / C06: identifier lists - func (a, b, c string, d int) - must not disturb the signature order ---------------------------
PG(n, t, k) == Prm(n, t, k, "", "")
G(ps, groups) == [ps |-> ps, groups |-> groups]
GroupedLists ==
       { G(<<PG("a", "string", k1), PG("b", "string", k2), PG("c", "string", k3), PG("d", t4, k4)>>, <<3, 1>>) :
              k1 \in {"Query", "Header", "Path"}, k2 \in {"Query", "Header", "Path"}, k3 \in {"Query", "Header", "Path"}, t4 \in {"string", "int"}, k4 \in {"Query", "Header"} }
  \cup { G(<<Prm("ctx", "context.Context", "Context", "", ""), PG("a", "int", k1), PG("b", "int", "Query"), PG("c", "int", "Header"), PG("d", t, k4), PG("e", t, "Query")>>, <<1, 3, 2>>) :
              k1 \in {"Query", "Path"}, k4 \in {"Query", "Header", "Path"}, t \in {"string", "int"} }
  \cup { G(<<PG("a", "string", "Path"), PG("b", "string", "Query"), PG("c", "*int", "Query"), PG("d", "*int", "Header"), PG("f", "*int", "Query"), PG("g", t, k)>>, <<2, 3, 1>>) :
              k \in {"Query", "Header"}, t \in {"string", "*int"} }
  \cup { G(<<PG("a", "string", "FormField"), PG("b", "string", "FormField"), PG("c", "string", "Query"), PG("d", t, "FormField")>>, <<3, 1>>) : t \in {"string", "int"} }
MethodsGrouped == { MthP("POST", g.ps, ret, <<>>, 0) @@ [groups |-> g.groups] : g \in GroupedLists, ret \in {<<"error">>} }

\* ---- C07 / C11: type graphs --------------------------------------------------------------------------------------------
FldE(t) == [name |-> "", type |-> t, json |-> "", valid |-> "", desc |-> "", embed |-> TRUE, deprecated |-> FALSE]
Ty(pkg, name, kind, base, fields, consts) == [pkg |-> pkg, file |-> "types", name |-> name, kind |-> kind, base |-> base, fields |-> fields, consts |-> consts,
                                              desc |-> "", raw |-> "", errorT |-> FALSE, deprecated |-> FALSE]
TyD(pkg, name, kind, base, fields, consts) == [Ty(pkg, name, kind, base, fields, consts) EXCEPT !.deprecated = TRUE]   \* "// @Deprecated" on the declaration
\* a struct exercising every field form: renamed, omitempty, unexported, json "-", no tag, pointer, slices, map, time, bytes,
\* enum field with a usage-site validator, self reference, cross-package reference, nested slice of pointers
TOrder == Ty("p1", "Order", "struct", "", <<Fld("ID", "string", "id", "required,uuid"), Fld("Qty", "int", "qty,omitempty", "gte=1,lte=100"), Fld("Note", "*string", "", ""),
                                              Fld("secret", "string", "", ""), Fld("Skip", "string", "-", ""), Fld("Tags", "[]string", "tags", "required"),
                                              Fld("Meta", "map[string]int", "meta", ""), Fld("When", "time.Time", "when", ""), Fld("Raw", "[]byte", "raw", ""),
                                              Fld("Col", "p1.Color", "col", "required"), Fld("Next", "*p1.Order", "next", ""), Fld("Lines", "[]p2.Line", "lines", ""),
                                              Fld("Price", "float64", "price", "gt=0"),
                                              \* pointers to collections and collections of pointers: the mapped type keeps every layer but the pointers
                                              Fld("Marks", "*[]string", "marks", ""), Fld("Subs", "*[]p2.Line", "subs", ""), Fld("Refs", "[]*p2.Line", "refs", "")>>, <<>>)
TLine  == Ty("p2", "Line", "struct", "", <<Fld("Sku", "string", "sku", "required,min=1,max=10"), Fld("Level", "p2.Level", "level", ""), Fld("Alias", "p2.Code", "alias", "")>>, <<>>)
TLevel == Ty("p2", "Level", "enum", "int", <<>>, <<Con("Low", "1"), Con("High", "2")>>)
TCode  == Ty("p2", "Code", "alias", "string", <<>>, <<>>)
TBase  == Ty("p1", "Base", "struct", "", <<Fld("Created", "time.Time", "created", ""), Fld("By", "string", "by", "email")>>, <<>>)
TDeriv == Ty("p1", "Derived", "struct", "", <<FldE("p1.Base"), Fld("Extra", "bool", "extra", "")>>, <<>>)
\* embedding an UNEXPORTED struct type (its exported fields are still promoted by encoding/json), by value and by pointer
TAudit == Ty("p1", "audit", "struct", "", <<Fld("CreatedBy", "string", "createdBy", "required")>>, <<>>)
TStamp == Ty("p1", "stamps", "struct", "", <<Fld("At", "time.Time", "at", "")>>, <<>>)
TDoc   == Ty("p1", "Doc", "struct", "", <<FldE("p1.audit"), FldE("*p1.stamps"), FldE("p1.Base"), Fld("Title", "string", "title", "required")>>, <<>>)
TUnused == Ty("p1", "Unused", "struct", "", <<Fld("X", "int", "x", "")>>, <<>>)
TFlag  == Ty("p1", "Flag", "enum", "string", <<>>, <<Con("On", "\"on\""), Con("Off", "\"off\"")>>)
\* the same enum used with a usage-site oneof: must not change the shared component
TUser  == Ty("p1", "User", "struct", "", <<Fld("Name", "string", "name", "required"), Fld("Flag", "p1.Flag", "flag", "required,oneof=on")>>, <<>>)
\* deprecation: a field's own @Deprecated (usage site) must not leak into the component of the field's type; a declaration's @Deprecated
\* is part of that type's component wherever it is used
TPrio   == Ty("p1", "Priority", "enum", "string", <<>>, <<Con("PLow", "\"low\""), Con("PHigh", "\"high\"")>>)
TAddr   == Ty("p1", "Address", "struct", "", <<Fld("Street", "string", "street", "required"), FldD("Zip", "string", "zip", "")>>, <<>>)
TLegacy == TyD("p1", "Legacy", "struct", "", <<Fld("Old", "string", "old", "")>>, <<>>)
TOldEn  == TyD("p1", "OldKind", "enum", "string", <<>>, <<Con("KA", "\"a\""), Con("KB", "\"b\"")>>)
TTicket == Ty("p1", "Ticket", "struct", "", <<Fld("ID", "string", "id", "required"), FldD("Prio", "p1.Priority", "prio", ""), FldD("Addr", "p1.Address", "addr", ""),
                                               FldD("Note", "string", "note", ""), Fld("Leg", "p1.Legacy", "leg", ""), Fld("Kind", "p1.OldKind", "kind", ""),
                                               FldD("Addrs", "[]p1.Address", "addrs", ""), FldD("ByName", "map[string]p1.Address", "byName", "")>>, <<>>)
TTicketPlain == Ty("p1", "Ticket", "struct", "", <<Fld("ID", "string", "id", "required"), Fld("Prio", "p1.Priority", "prio", ""), Fld("Addr", "p1.Address", "addr", ""),
                                               Fld("Note", "string", "note", ""), Fld("Leg", "p1.Legacy", "leg", ""), Fld("Kind", "p1.OldKind", "kind", ""),
                                               Fld("Addrs", "[]p1.Address", "addrs", ""), Fld("ByName", "map[string]p1.Address", "byName", "")>>, <<>>)
TBacklog == Ty("p1", "Backlog", "struct", "", <<Fld("Top", "p1.Priority", "top", ""), Fld("Where", "p1.Address", "where", "")>>, <<>>)
\* an enum whose constants are spread over several files of its package
TSplitS == Ty("p1", "Stage", "enum", "string", <<>>, <<Con("SNew", "\"new\""), ConF("SDone", "\"done\"", "consts"), ConF("SGone", "\"gone\"", "more")>>)
TSplitI == Ty("p2", "Rank", "enum", "int", <<>>, <<ConF("RLow", "1", "ranks"), Con("RMid", "5"), ConF("RTop", "9", "ranks")>>)
TJob == Ty("p1", "Job", "struct", "", <<Fld("Stage", "p1.Stage", "stage", "required"), Fld("Rank", "p2.Rank", "rank", "")>>, <<>>)
TypeZoo == { <<TItem, TMyErr, TColor, TOrder, TLine, TLevel, TCode, TUnused>>, <<TItem, TMyErr, TColor, TBase, TDeriv, TUnused>>,
             <<TItem, TMyErr, TColor, TBase, TAudit, TStamp, TDoc>>,
             <<TItem, TMyErr, TColor, TPrio, TAddr, TLegacy, TOldEn, TTicket, TBacklog>>, <<TItem, TMyErr, TColor, TPrio, TAddr, TLegacy, TOldEn, TTicketPlain, TBacklog>>,
             <<TItem, TMyErr, TColor, TSplitS, TSplitI, TJob>>,
             <<TItem, TMyErr, TColor, TFlag, TUser>>, <<TItem, TMyErr, TColor, TFlag, TUser, TOrder, TLine, TLevel, TCode, TBase, TDeriv>> }
ParamsC07 == { Prm("e", t, "Body", "", "") : t \in {"p1.Order", "*p1.Order", "[]p1.Order", "p1.Derived", "p1.User", "p1.Item", "map[string]p1.Item", "p1.Doc", "p1.Ticket", "p1.Backlog", "p1.Job"} }
             \cup { Prm("b", t, "Query", "", "") : t \in {"p1.Flag", "p2.Level", "p2.Code", "string", "p1.Stage", "p2.Rank"} }
RetsC07 == { <<"error">>, <<"p1.Doc", "error">>, <<"p1.Job", "error">>, <<"p2.Rank", "error">>, <<"p1.Ticket", "error">>, <<"[]p1.Backlog", "error">>, <<"p1.Legacy", "error">>, <<"p1.Order", "error">>, <<"[]p1.Derived", "error">>, <<"p1.User", "error">>, <<"p2.Line", "error">>, <<"*p1.Item", "error">>, <<"p1.Flag", "error">>,
             <<"map[string]p2.Line", "error">>, <<"p1.Item", "p1.MyErr">> }
CfgsC07 == CfgsC06
MethodsC07 == { MthP("POST", ps, ret, errs, 0) : ps \in {<<>>} \cup {<<a>> : a \in ParamsC07}, ret \in RetsC07, errs \in {<<>>, <<E(500)>>} }

\* ---- C19/C20: controllers in files no glob matches, in packages that are only loaded because a model type lives there -------
\* (matched controllers live in p1; p2 holds model types and - in files the globs do not match - controllers that must stay unseen)
CtlOut(pkg, file, name, prefix) == [Ctl(pkg, file, name, prefix, name, <<>>) EXCEPT !.desc = ""] @@ [outside |-> TRUE]
CtrlsC19 == { Ctl("p1", f, n, pre, n, <<>>) : f \in {"f1", "f2"}, n \in {"AController", "BController"}, pre \in {"/a", "/b"} }
            \cup { CtlOut(pk, "x1", n, pre) : pk \in {"p1", "p2"}, n \in {"CController", "DController"}, pre \in {"/a", "/c"} }

\* ---- C14: hostile inputs - malformed annotation properties, arbitrary validator tags, unsupported type shapes ------------------
SRaw(n, raw) == [scheme |-> n, scopes |-> <<>>, rawProps |-> raw]
HostileSec == { <<SRaw("s1", "{scopes: null}")>>, <<SRaw("s1", "{scopes: [null]}")>>, <<SRaw("s1", "{scopes: \"r\"}")>>, <<SRaw("s1", "{scopes: [1, 2]}")>>,
                <<SRaw("s1", "{scopes: {a: 1}}")>>, <<SRaw("s1", "{name: 1}")>>, <<SRaw("s1", "{scopes: [\"r\"], scopes: [\"w\"]}")>>, <<SRaw("s1", "{")>>, <<SRaw("", "{scopes: []}")>> }
AnRaw(k, v, raw) == [kind |-> k, value |-> v, alias |-> "", validate |-> "", desc |-> "", rawProps |-> raw]
HostileAnns == { AnRaw("Query", "b", "{name: 1}"), AnRaw("Query", "b", "{name: null}"), AnRaw("Query", "b", "{validate: 5}"), AnRaw("Query", "b", "{validate: \"min=abc\"}"),
                 AnRaw("Query", "b", "{validate: \"gt=x,lt=\"}"), AnRaw("Query", "b", "{validate: \",,\"}"), AnRaw("Query", "b", "{validate: \"oneof=\"}"),
                 AnRaw("Query", "b", "{validate: \"len=\"}"), AnRaw("Query", "b", "{name: {a: [1]}}"), AnRaw("Query", "b", "{name: \"x\", extra: true}"), AnRaw("Query", "b", "{name: }") }
HostileTags == { "min=abc", "max=", "len=x", "len=", "minItems=q", "maxItems=-1", "uniqueItems", "gt=x", "gte=", "lt=1e999", "oneof=", "enum=", ",,", "required,,min=1",
                 "unknownrule=3", "pattern=[", "min=1,max=0,len=5,email,uuid,ip,hostname,datetime,gt=1,lt=2,oneof=a b c,enum=a|b" }
THostile(tag, ft) == Ty("p1", "Hostile", "struct", "", <<Fld("V", ft, "v", tag)>>, <<>>)
HostileTypeSets == { <<TItem, TMyErr, TColor, THostile(tag, ft)>> : tag \in HostileTags, ft \in {"string", "int", "[]string", "p1.Color", "*p1.Item"} }
RawT(name, text) == [pkg |-> "p1", file |-> "types", name |-> name, kind |-> "raw", base |-> "", fields |-> <<>>, consts |-> <<>>, desc |-> "", raw |-> text, errorT |-> FALSE, deprecated |-> FALSE]
UnsupportedTypeSets == {
   <<TItem, TMyErr, TColor, RawT("Hostile", "type Hostile struct {\n\tV struct{ A int } `json:\"v\"`\n}")>>,
   <<TItem, TMyErr, TColor, RawT("Hostile", "type Hostile struct {\n\tV func(int) string `json:\"v\"`\n}")>>,
   <<TItem, TMyErr, TColor, RawT("Hostile", "type Hostile struct {\n\tV chan int `json:\"v\"`\n}")>>,
   <<TItem, TMyErr, TColor, RawT("Hostile", "type Hostile struct {\n\tV interface{ M() } `json:\"v\"`\n}")>>,
   <<TItem, TMyErr, TColor, RawT("Hostile", "type Hostile struct {\n\tV [4]int `json:\"v\"`\n}")>>,
   <<TItem, TMyErr, TColor, RawT("Hostile", "type Hostile struct {\n\tV any `json:\"v\"`\n\tW map[int]string `json:\"w\"`\n}")>>,
   <<TItem, TMyErr, TColor, RawT("Hostile", "type Hostile struct {\n\tV *Other `json:\"v\"`\n}\n\ntype Other struct {\n\tH []Hostile `json:\"h\"`\n\tO map[string]*Other `json:\"o\"`\n}")>>,
   <<TItem, TMyErr, TColor, RawT("Hostile", "type Hostile[T any] struct {\n\tV T `json:\"v\"`\n}")>>,
   <<TItem, TMyErr, TColor, RawT("Hostile", "type Hostile struct {\n\tV Gen[int] `json:\"v\"`\n}\n\ntype Gen[T any] struct {\n\tX T `json:\"x\"`\n}")>>,
   <<TItem, TMyErr, TColor, RawT("Hostile", "type Hostile struct {\n\tV [][]*[]map[string][]int `json:\"v\"`\n}")>>,
   <<TItem, TMyErr, TColor, RawT("Hostile", "type Hostile struct {\n\tV Gen[Item] `json:\"v\"`\n\tW Gen[[]Item] `json:\"w\"`\n}\n\ntype Gen[T any] struct {\n\tX T `json:\"x\"`\n}")>>,
   <<TItem, TMyErr, TColor, RawT("Hostile", "type Hostile struct {\n\tV Pair[string, Item] `json:\"v\"`\n}\n\ntype Pair[K comparable, V any] struct {\n\tKey K `json:\"key\"`\n\tVal V `json:\"val\"`\n}")>>,
   <<TItem, TMyErr, TColor, RawT("Hostile", "type Hostile struct {\n\tV Gen[string] `json:\"v\"`\n}\n\ntype Gen[T any] struct {\n\thidden int\n\tSkip string `json:\"-\"`\n\tValue T `json:\"value\"`\n\tMore []T `json:\"more\"`\n}")>>,
   <<TItem, TMyErr, TColor, RawT("Hostile", "type Hostile struct {\n\tV Gen[Item, int] `json:\"v\"`\n}\n\ntype Gen[A any, B any] struct {\n\tFirst A `json:\"first\"`\n\tsecret B\n\tSecond B `json:\"second\"`\n}")>>,
   \* type parameters constrained by a DECLARED type (an interface with a type set; a struct met before / after its use)
   <<TItem, TMyErr, TColor, RawT("Hostile", "type Hostile struct {\n\tV Box[int] `json:\"v\"`\n}\n\ntype Number interface {\n\t~int | ~float64\n}\n\ntype Box[T Number] struct {\n\tValue T `json:\"value\"`\n}")>>,
   <<TItem, TMyErr, TColor, RawT("Hostile", "type Hostile struct {\n\tB Box[Item] `json:\"b\"`\n\tL Item `json:\"l\"`\n}\n\ntype Box[T Item] struct {\n\tValue T `json:\"value\"`\n}")>>,
   <<TItem, TMyErr, TColor, RawT("Hostile", "type Hostile struct {\n\tL Item `json:\"l\"`\n\tB Box[Item] `json:\"b\"`\n}\n\ntype Box[T Item] struct {\n\tValue T `json:\"value\"`\n}")>>,
   <<TItem, TMyErr, TColor, RawT("Hostile", "type Hostile struct {\n\tV Box[string] `json:\"v\"`\n}\n\ntype Box[T interface{ ~string }] struct {\n\tValue T `json:\"value\"`\n}")>>,
   <<TItem, TMyErr, TColor, RawT("Hostile", "type Hostile struct {\n\tV Box[Color] `json:\"v\"`\n}\n\ntype Box[T comparable] struct {\n\tValue T `json:\"value\"`\n}")>>,
   <<TItem, TMyErr, TColor, RawT("Hostile", "type Hostile = Item")>>,
   <<TItem, TMyErr, TColor, RawT("Hostile", "type Hostile uint8\n\nconst (\n\tHA Hostile = iota\n\tHB\n\tHC = HB << 2\n)")>> }
CfgsC14 == { Cfg(en, v, FALSE, NoSec, <<"s1">>) : en \in {"gin", "fiber"}, v \in {"3.0.0", "3.1.0"} }
CtrlsC14 == { Ctl("p1", "f1", "AController", "/a", "A", sec) : sec \in {<<>>} \cup HostileSec }
MethodsC14 ==    { [MthP("POST", <<Prm("e", "p1.Hostile", "Body", "", "")>>, ret, <<>>, 0) EXCEPT !.sec = sec] : ret \in {<<"error">>, <<"p1.Hostile", "error">>}, sec \in {<<>>} \cup HostileSec }
            \cup { [MthP("GET", <<Prm("b", "string", "Query", "", "")>>, <<"[]p1.Hostile", "error">>, <<>>, 0) EXCEPT !.anns = <<a>>] : a \in HostileAnns }
            \cup { [MthP("GET", <<Prm("b", "p1.Hostile", "Query", "", "")>>, <<"error">>, <<>>, 0) EXCEPT !.verb = v] : v \in {"GET", "TRACE", ""} }
TypeSetsC14 == HostileTypeSets \cup UnsupportedTypeSets
\* every unsupported / unusual type shape, as a body and as a result, in both dialects (exhaustive: few and each one matters)
\* instantiated generics as parameter / result types themselves (type arguments that are slices, declared types, several arguments)
TGenerics == RawT("Gen", "type Gen[T any] struct {\n\tX T `json:\"x\"`\n}\n\ntype Pair[K comparable, V any] struct {\n\tKey K `json:\"key\"`\n\tVal V `json:\"val\"`\n}")
GenericTypeSets == { <<TItem, TMyErr, TColor, TGenerics>> }
GenericUses == {"p1.Gen[string]", "p1.Gen[[]string]", "[]p1.Gen[[]int]", "*p1.Pair[string, []float64]", "p1.Gen[p1.Item]", "p1.Pair[string, p1.Item]", "p1.Gen[[]p1.Item]"}
MethodsC14generics == { MthP("POST", <<Prm("e", t, "Body", "", "")>>, <<"error">>, <<>>, 0) : t \in GenericUses }
                      \cup { MthP("GET", <<>>, <<t, "error">>, <<>>, 0) : t \in GenericUses }
MethodsC14types == { MthP("POST", <<Prm("e", "p1.Hostile", "Body", "", "")>>, <<"error">>, <<>>, 0),
                     MthP("GET", <<>>, <<"[]p1.Hostile", "error">>, <<>>, 0) }

\* ---- C10 / C09: two packages with the SAME last path segment (p1/api and p2/api, written "p1_api" / "p2_api": the harness lays the
\*      package id out as a directory path and imports it under the id as alias), each declaring a same-named error type, of which
\*      one may not embed 'error' - whatever is memoised per "alias.Name" confuses them --------------------------------------------
TErrIn(pk, e) == [pkg |-> pk, file |-> "types", name |-> "ApiErr", kind |-> "struct", base |-> "", fields |-> <<Fld("Code", "int", "code", "")>>,
                  consts |-> <<>>, desc |-> "", raw |-> "", errorT |-> e, deprecated |-> FALSE]
TwinTypeSets == { <<TItem, TErrIn("p1_api", e1), TErrIn("p2_api", e2)>> : e1 \in BOOLEAN, e2 \in BOOLEAN } \ { <<TItem, TErrIn("p1_api", FALSE), TErrIn("p2_api", FALSE)>> }
\* (controllers live in p1/api - which has an ApiErr of its own - and in p3, which has none; nobody imports them: no import cycle)
CtrlsC10twin == { Ctl("p1_api", "f1", "AController", "/a", "A", <<>>), Ctl("p3", "f1", "BController", "/b", "B", <<>>) }
MethodsC10twin == { MthP("GET", <<>>, <<"string", t>>, <<>>, 0) : t \in {"p1_api.ApiErr", "p2_api.ApiErr"} }

\* ---- C09: names and packages that stress the string-built import aliases (ParamN<name>, ResponseN<type>) ----------------------
Cfg9(vt, ge, vr) == [engine |-> "gin", version |-> "3.0.0", enforce |-> FALSE, default |-> NoSec, schemes |-> <<"s2", "s1">>,
                     validateTopLevelOnlyEnum |-> vt, generateEnumValidator |-> ge, validateResponsePayload |-> vr]
CfgsC09 == { Cfg9(vt, ge, vr) : vt \in BOOLEAN, ge \in BOOLEAN, vr \in BOOLEAN }
CtrlsC09 == { Ctl("p1", "f1", "AController", "/a", "A", <<>>), Ctl("p2", "f2", "BController", "/b", "B", <<>>), Ctl("p1", "f2", "CController", "/c", "C", <<>>) }
\* the same parameter NAME with types from different packages, in different controllers, at the same ordinal
MethodsC09 == { MthP("POST", ps, ret, <<>>, 0) :
                  ps \in { <<Prm("item", t, "Body", "", "")>> : t \in {"p1.Item", "p2.Line", "p1.Order", "[]p2.Line", "*p1.Item", "[]p1.Item"} }
                       \cup { <<Prm("item", t, "Query", "", "")>> : t \in {"p1.Color", "p2.Level", "p2.Code", "[]p1.Color", "p1.Shade"} }
                       \* Go names that a case converter would respell (consecutive capitals, underscore, leading capital)
                       \cup { <<Prm(n, t, "Query", "", "")>> : n \in {"orgID", "sort_by", "Xy"}, t \in {"p1.Color", "p2.Level"} }
                       \cup { <<Prm(n, "p2.Line", "Body", "", "")>> : n \in {"itemDTO", "req_body"} },
                  ret \in { <<"error">>, <<"p1.Item", "error">>, <<"p2.Line", "error">>, <<"[]p1.Order", "error">>, <<"*p2.Line", "error">>, <<"p2.Level", "error">> } }
\* an enum two of whose constants share a value (a 'default' member mirroring another one)
TDup == Ty("p1", "Shade", "enum", "string", <<>>, <<Con("ShadeDark", "\"dark\""), Con("ShadeLight", "\"light\""), Con("ShadeDefault", "\"dark\""), Con("ShadeMid", "\"mid\"")>>)
TypesC09 == { <<TItem, TMyErr, TColor, TOrder, TLine, TLevel, TCode, TDup>> }

\* ---- C11: every validator rule either converter knows x applicable / inapplicable field types (one field per rule) -----------------
RuleList == << "required", "omitempty", "email", "uuid", "ip", "ipv4", "ipv6", "hostname", "date", "datetime", "gt=1", "gte=2", "lt=9", "lte=8", "min=1", "max=7", "len=5",
               "pattern=^a+$", "minItems=1", "maxItems=3", "uniqueItems", "enum=a|b", "oneof=a b", "unknownrule=3", "gte=2,lte=16", "required,min=3,max=40", "gt=0,lt=10,required", "enum=1|2", "oneof=1 2", "enum=a", "oneof=red blue",
               "oneof=required optional", "ne=required", "min=1,oneof=xrequired y",
               "oneof=0.1 0.25", "enum=0.3|1.5", "dive,oneof=red", "dive,min=2", "uniqueItems=1", "uniqueItems=t", "uniqueItems=false", "maxItems=0" >>      \* (0.1 and 0.3 have no exact binary32 representation)
RuleFieldTypes == {"string", "*string", "int", "uint8", "float64", "float32", "bool", "[]string", "[]int", "p1.Color", "[]p1.Color", "map[string]int", "time.Time", "[]byte"}
RulesFields(ft) == [i \in DOMAIN RuleList |-> Fld("F" \o ToString(i), ft, "f" \o ToString(i), RuleList[i])]
TRules(ft) == Ty("p1", "Rules", "struct", "", RulesFields(ft), <<>>)
RuleTypeSets == { <<TItem, TMyErr, TColor, TRules(ft)>> : ft \in RuleFieldTypes }
RuleParams(t, k) == [i \in DOMAIN RuleList |-> Prm("b" \o ToString(i), t, k, "", RuleList[i])]
MethodsC11rules == { MthP("POST", <<Prm("e", "p1.Rules", "Body", "", "")>>, <<"p1.Rules", "error">>, <<>>, 0) }
MethodsC11rulesP ==   { MthP("POST", RuleParams(t, "Query"), <<"error">>, <<>>, 0) : t \in {"string", "*string", "int", "float64", "float32", "[]string", "[]int", "bool", "p1.Color"} }
                   \cup { MthP("POST", RuleParams(t, "Header"), <<"error">>, <<>>, 0) : t \in {"string", "int"} }
                   \cup { MthP("POST", RuleParams(t, "FormField"), <<"error">>, <<>>, 0) : t \in {"string", "int", "p1.Color", "*p1.Color", "[]string"} }
                   \cup { MthP("POST", RuleParams(t, "Path"), <<"error">>, <<>>, 0) : t \in {"string", "p1.Color"} }

\* ---- C13: controllers sharing a struct NAME across packages (every by-name ordering must be broken by the package), with
\*      parameter / response types of other packages so that import serials are handed out ------------------------------------------
CtrlsC13 == { Ctl(pk, f, n, pre, n, <<>>) : pk \in {"p1", "p2"}, f \in {"f1", "f2"}, n \in {"AController", "BController"}, pre \in {"/a", "/b"} }

\* ---- C10 / C18: every single and double perturbation of two well-formed base routes --------------------------------------
An(k, v, al) == [kind |-> k, value |-> v, alias |-> al, validate |-> "", desc |-> "", extra |-> ""]
Sg(n, t) == [name |-> n, type |-> t]
BaseJ == [file |-> "", verb |-> "POST", route |-> "/r/{a}", hidden |-> FALSE, deprecated |-> FALSE, sec |-> <<>>,
          sig |-> <<Sg("a", "string"), Sg("b", "*int"), Sg("c", "string"), Sg("e", "p1.Item")>>,
          anns |-> <<An("Path", "a", ""), An("Query", "b", ""), An("Header", "c", "x-c"), An("Body", "e", "")>>,
          ret |-> <<"p1.Item", "error">>, errors |-> <<E(500)>>, response |-> 0, desc |-> "base", ptag |-> "", verbProps |-> ""]
BaseF == [BaseJ EXCEPT !.route = "/r/{id}/x", !.sig = <<Sg("ctx", "context.Context"), Sg("a", "int"), Sg("d", "string")>>,
                       !.anns = <<An("Path", "a", "id"), An("FormField", "d", "")>>, !.ret = <<"error">>]
Rev(sq) == [j \in 1..Len(sq) |-> sq[Len(sq) + 1 - j]]
\* the same routes with the annotation lines in reverse order (the order of annotations must not matter to the verdict)
BaseJr == [BaseJ EXCEPT !.anns = Rev(BaseJ.anns), !.desc = "base, annotations reversed"]
BaseFr == [BaseF EXCEPT !.anns = Rev(BaseF.anns), !.desc = "base, annotations reversed"]
\* two path parameters (several diagnostics of one kind on one route)
BaseP == [BaseJ EXCEPT !.route = "/r/{a}/{b}", !.sig = <<Sg("a", "string"), Sg("b", "int")>>, !.anns = <<An("Path", "a", ""), An("Path", "b", "")>>, !.ret = <<"error">>]
\* a signature laid out over several lines, with a two-name declaration spanning two of them (ranges of parameter diagnostics)
BaseM == [BaseJ EXCEPT !.sig = <<Sg("a", "string"), Sg("c", "string"), Sg("b", "*int"), Sg("e", "p1.Item")>>, !.desc = "base, multi-line signature"]
         @@ [groups |-> <<2, 1, 1>>, multiline |-> TRUE]
BadAlias(a, n) == [kind |-> a.kind, value |-> a.value, alias |-> "", validate |-> "", desc |-> "", extra |-> "", rawProps |-> "{name: " \o ToString(n) \o "}"]
Rm(sq, i) == [j \in 1..(Len(sq) - 1) |-> IF j < i THEN sq[j] ELSE sq[j + 1]]
Tag(b, t) == IF b.ptag = "" THEN t ELSE b.ptag \o "+" \o t
Perturb1(b) ==
       { [b EXCEPT !.anns = Rm(b.anns, i), !.ptag = Tag(b, "dropAnn:" \o b.anns[i].kind)] : i \in DOMAIN b.anns }
  \cup { [b EXCEPT !.anns = Append(b.anns, b.anns[i]), !.ptag = Tag(b, "dupAnn:" \o b.anns[i].kind)] : i \in DOMAIN b.anns }
  \cup { [b EXCEPT !.anns[i].value = "zz", !.ptag = Tag(b, "renameAnn:" \o b.anns[i].kind)] : i \in DOMAIN b.anns }
  \cup { [b EXCEPT !.anns[pr[1]].value = b.anns[pr[2]].value, !.ptag = Tag(b, "retargetAnn:" \o b.anns[pr[1]].kind \o ">" \o b.anns[pr[2]].kind)]
            : pr \in {x \in (DOMAIN b.anns) \X (DOMAIN b.anns) : x[1] # x[2]} }
  \cup { [b EXCEPT !.anns[pr[1]].kind = pr[2], !.ptag = Tag(b, "retypeAnn:" \o b.anns[pr[1]].kind \o ">" \o pr[2])]
            : pr \in {x \in (DOMAIN b.anns) \X {"Path", "Query", "Body"} : b.anns[x[1]].kind # x[2]} }
  \cup { [b EXCEPT !.sig = Rm(b.sig, i), !.ptag = Tag(b, "dropParam:" \o b.sig[i].name)] : i \in DOMAIN b.sig }
  \cup { [b EXCEPT !.sig[i].name = "yy", !.ptag = Tag(b, "renameParam:" \o b.sig[i].name)] : i \in DOMAIN b.sig }
  \cup { [b EXCEPT !.sig[pr[1]].type = pr[2], !.ptag = Tag(b, "retypeParam:" \o b.sig[pr[1]].name \o ">" \o pr[2])]
            : pr \in {x \in (DOMAIN b.sig) \X {"p1.Item", "[]string", "map[string]string", "p1.Color", "string", "[]p1.Color"} :
                          b.sig[x[1]].type # "context.Context" /\ b.sig[x[1]].type # x[2]} }
  \cup { [b EXCEPT !.route = r, !.ptag = Tag(b, "route:" \o r)] : r \in {"/r", "/r/{a}/{a}", "/r/{zz}", "/r/{a}/{id}", "/r/{id}"} \ {b.route} }
  \cup { [b EXCEPT !.ret = r, !.ptag = Tag(b, "ret")] : r \in {<<>>, <<"p1.Item">>, <<"string", "string", "error">>, <<"p1.Item", "string">>, <<"p1.MyErr">>, <<"string", "p1.MyErr">>} \ {b.ret} }
  \cup { [b EXCEPT !.verb = v, !.ptag = Tag(b, "verb:" \o v)] : v \in {"HEAD", "OPTIONS", "FETCH", "get", "DELETE"} }
  \cup { [b EXCEPT !.anns = [j \in DOMAIN b.anns |-> IF j = i THEN BadAlias(b.anns[j], j) ELSE b.anns[j]], !.ptag = Tag(b, "badAlias:" \o b.anns[i].kind)] : i \in DOMAIN b.anns }
  \cup { [b EXCEPT !.anns = [j \in DOMAIN b.anns |-> IF b.anns[j].kind = "Path" THEN BadAlias(b.anns[j], j) ELSE b.anns[j]], !.ptag = Tag(b, "badAliasAllPaths")] }
\* (two parameters renamed to the same name do not compile: outside the property's domain)
SigNamesDistinct(b) == \A i, j \in DOMAIN b.sig : i # j => b.sig[i].name # b.sig[j].name
Perturb2(b) == {y \in UNION {Perturb1(x) : x \in Perturb1(b)} : SigNamesDistinct(y)}
\* lint material: a property the annotation does not know (a warning at most) - the route stays exactly as well-linked as it was.
\* Combined with every error perturbation (a warning on an annotation must not mask an error on the same or another annotation)
Stray(b) ==
       { [b EXCEPT !.anns[i].extra = "example: \"abc\"", !.ptag = Tag(b, "strayProp:" \o b.anns[i].kind)] : i \in DOMAIN b.anns }
  \cup { [b EXCEPT !.verbProps = "note: \"x\"", !.ptag = Tag(b, "strayVerbProp")] }
PerturbMask(b) == {y \in UNION {Perturb1(x) : x \in Stray(b)} : SigNamesDistinct(y)}
\* ---- C18: the SAME offending annotation line in two methods (whatever is remembered per line text must not carry a position) ----
SameBad(b) == [b EXCEPT !.anns = [j \in DOMAIN b.anns |-> IF b.anns[j].kind = "Path" THEN [BadAlias(b.anns[j], 5) EXCEPT !.value = b.anns[j].value] ELSE b.anns[j]],
                        !.ptag = Tag(b, "sameBadAlias")]
MethodsC18pair == { m @@ [uniq |-> TRUE] : m \in {BaseJ, BaseP, SameBad(BaseJ), SameBad(BaseP), [SameBad(BaseP) EXCEPT !.desc = "Same line, other doc"]} }
CfgsC10 == { Cfg("gin", "3.0.0", FALSE, NoSec, <<"s1">>) }
CtrlsC10 == { Ctl("p1", "f1", "AController", pre, "A", <<>>) : pre \in {"/a", "/a/{t}"} }
MethodsC10single == {BaseJ, BaseF, BaseJr, BaseFr, BaseP} \cup Perturb1(BaseJ) \cup Perturb1(BaseF) \cup Perturb1(BaseJr) \cup Perturb1(BaseFr) \cup Perturb1(BaseP)
\* the core of the single-perturbation space (three bases, one controller prefix): small enough to be run in full on every change
CtrlsC10core == { Ctl("p1", "f1", "AController", "/a", "A", <<>>) }
MethodsC10core == {BaseJ, BaseF, BaseP, BaseM} \cup Perturb1(BaseJ) \cup Perturb1(BaseF) \cup Perturb1(BaseP)
                  \cup {x \in Perturb1(BaseM) : (Len(x.anns) # Len(BaseM.anns) \/ x.sig # BaseM.sig) /\ Len(x.sig) = 4 /\ x.sig[1].type = x.sig[2].type}
\* the core of the masking space: a stray property on annotation i together with an error that involves the same annotation
\* (duplicate, retarget), and a stray property on @Method together with every unsupported verb
StrayAnn(b, i) == [b EXCEPT !.anns[i].extra = "example: \"abc\"", !.ptag = Tag(b, "strayProp:" \o b.anns[i].kind)]
StrayVerb(b) == [b EXCEPT !.verbProps = "note: \"x\"", !.ptag = Tag(b, "strayVerbProp")]
MaskCore(b) ==
       UNION { { [StrayAnn(b, i) EXCEPT !.anns = Append(StrayAnn(b, i).anns, StrayAnn(b, i).anns[i]), !.ptag = Tag(StrayAnn(b, i), "dupAnn:" \o b.anns[i].kind)] }
               \cup { [StrayAnn(b, i) EXCEPT !.anns[i].value = b.anns[j].value, !.ptag = Tag(StrayAnn(b, i), "retargetAnn:" \o b.anns[i].kind \o ">" \o b.anns[j].kind)]
                          : j \in DOMAIN b.anns \ {i} }
               \cup { [StrayAnn(b, j) EXCEPT !.anns[i].value = b.anns[j].value, !.ptag = Tag(StrayAnn(b, j), "retargetAnn:" \o b.anns[i].kind \o ">" \o b.anns[j].kind)]
                          : j \in DOMAIN b.anns \ {i} }
               : i \in DOMAIN b.anns }
  \cup { [StrayVerb(b) EXCEPT !.verb = v, !.ptag = Tag(StrayVerb(b), "verb:" \o v)] : v \in {"HEAD", "OPTIONS", "FETCH", "get", "DELETE"} }
MethodsC10maskcore == MaskCore(BaseJ) \cup MaskCore(BaseF) \cup MaskCore(BaseP)
\* enforceSecurityOnAllRoutes with nothing securing the route: the missing-security diagnostic is built for every route, whatever
\* else is wrong with it (no results, unsupported verb, dropped parameters ...)
CfgsC10enf == { Cfg("gin", "3.0.0", TRUE, NoSec, <<"s1">>) }
ShapeChanged(b, x) == x.ret # b.ret \/ x.verb # b.verb \/ Len(x.sig) # Len(b.sig) \/ x.route # b.route
MethodsC10enf == {BaseJ, BaseF} \cup {x \in Perturb1(BaseJ) : ShapeChanged(BaseJ, x)} \cup {x \in Perturb1(BaseF) : ShapeChanged(BaseF, x)}
MethodsC10double == Perturb2(BaseJ) \cup Perturb2(BaseF) \cup Perturb2(BaseJr)
MethodsC10mask == Stray(BaseJ) \cup Stray(BaseF) \cup Stray(BaseP) \cup PerturbMask(BaseJ) \cup PerturbMask(BaseF) \cup PerturbMask(BaseP)

\* ---- model checking of the session machine: small input space, every schedule ------------------------------------------
CfgsM == { Cfg("gin", v, e, NoSec, <<"s1">>) : v \in {"3.0.0", "3.1.0"}, e \in BOOLEAN } \cup { Cfg("nope", "3.0.0", FALSE, NoSec, <<"s1">>) }
         \cup { Cfg("gin", "3.1.0", FALSE, NoSec, <<"s1">>) @@ [cmd |-> c] : c \in {"spec", "routes"} }
CtrlsM == { Ctl("p1", "f1", "AController", "/a", "A", <<>>), Ctl("p2", "f2", "BController", "/b", "B", <<S("s1", <<>>)>>), Ctl("p1", "f2", "CController", "/c", "C", <<S("s9", <<>>)>>) }
MethodsM == { Mth("", "GET", "/x", FALSE, FALSE, <<>>), Mth("f2", "POST", "/{id}", TRUE, FALSE, <<S("s1", <<"r">>)>>),
              [Mth("", "PUT", "/{id}", FALSE, TRUE, <<>>) EXCEPT !.ret = <<"string">>] }
=============================================================================
