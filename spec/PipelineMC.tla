---------------------------- MODULE PipelineMC ----------------------------
(* Choice sets for Pipeline (TLC configuration files cannot hold records). *)
EXTENDS Pipeline

S(n, sc) == [scheme |-> n, scopes |-> sc]
Cfg(engine, version, enforce, default, schemes) ==
    [engine |-> engine, version |-> version, enforce |-> enforce, default |-> default, schemes |-> schemes]
Ctl(pkg, file, name, prefix, tag, sec) == [pkg |-> pkg, file |-> file, name |-> name, prefix |-> prefix, tag |-> tag, sec |-> sec, desc |-> ""]
Mth(file, verb, route, hidden, deprecated, sec) ==
    [file |-> file, verb |-> verb, route |-> route, hidden |-> hidden, deprecated |-> deprecated, sec |-> sec,
     ret |-> <<"error">>, errors |-> <<>>, response |-> 0, desc |-> ""]

SecShapes == { <<>>, <<S("s1", <<>>)>>, <<S("s1", <<"r">>), S("s2", <<"w", "x">>)>>, <<S("s2", <<>>), S("s2", <<"r">>)>> }
SecShapesU == SecShapes \cup { <<S("s9", <<>>)>> }       \* s9 is never declared

\* ---- C04: one route, every combination of the three security levels, enforce, default, declared/undeclared -------------
CfgsC04 == { Cfg("gin", v, e, d, <<"s1", "s2">>) : v \in {"3.0.0", "3.1.0"}, e \in BOOLEAN, d \in {NoSec, S("s1", <<"d">>)} }
CtrlsC04 == { Ctl("p1", "f1", "AController", "/a", "A", sec) : sec \in SecShapesU }
MethodsC04 == { Mth("", "GET", "/x", h, FALSE, sec) : h \in BOOLEAN, sec \in SecShapesU }

\* ---- C01: routes, prefixes, verbs, hidden/deprecated, two controllers, foreign files --------------------------------
CfgsC01 == { Cfg("gin", v, FALSE, NoSec, <<"s1", "s2">>) : v \in {"3.0.0", "3.1.0"} }
CtrlsC01 == { Ctl(pk, "f1", n, pre, n, <<>>) : pk \in {"p1", "p2"}, n \in {"AController", "BController"}, pre \in {"", "/a", "/a/", "/{t}", "/b"} }
MethodsC01 == { Mth(f, v, r, h, d, <<>>) : f \in {"", "f2"}, v \in {"GET", "POST", "DELETE"}, r \in {"/", "/x", "x", "//x", "/x/", "/{id}", "/{id}/y"},
                                           h \in BOOLEAN, d \in BOOLEAN }

\* ---- simulation: everything together ----------------------------------------------------------------------------------
CfgsSim == { Cfg(en, v, e, d, <<"s1", "s2">>) : en \in {"gin", "echo", "mux", "chi", "fiber"}, v \in {"3.0.0", "3.1.0"}, e \in BOOLEAN, d \in {NoSec, S("s1", <<"d">>)} }
CtrlsSim == { Ctl(pk, f, n, pre, tg, sec) : pk \in {"p1", "p2"}, f \in {"f1", "f2"}, n \in {"AController", "BController", "CController"},
                                            pre \in {"", "/a", "/a/", "/{t}", "/b", "/c/d"}, tg \in {"A", "Tag B"}, sec \in SecShapes }
MethodsSim == { Mth(f, v, r, h, d, sec) : f \in {"", "f1", "f2"}, v \in {"GET", "POST", "PUT", "DELETE", "PATCH"},
                                          r \in {"/", "/x", "x", "//x", "/x/", "/{id}", "/{id}/y", "/x/{id}", "/y"}, h \in BOOLEAN, d \in BOOLEAN, sec \in SecShapes }
\* ---- model checking of the session machine: small input space, every schedule ------------------------------------------
CfgsM == { Cfg("gin", v, e, NoSec, <<"s1">>) : v \in {"3.0.0", "3.1.0"}, e \in BOOLEAN } \cup { Cfg("nope", "3.0.0", FALSE, NoSec, <<"s1">>) }
CtrlsM == { Ctl("p1", "f1", "AController", "/a", "A", <<>>), Ctl("p2", "f2", "BController", "/b", "B", <<S("s1", <<>>)>>), Ctl("p1", "f2", "CController", "/c", "C", <<S("s9", <<>>)>>) }
MethodsM == { Mth("", "GET", "/x", FALSE, FALSE, <<>>), Mth("f2", "POST", "/{id}", TRUE, FALSE, <<S("s1", <<"r">>)>>),
              [Mth("", "PUT", "/{id}", FALSE, TRUE, <<>>) EXCEPT !.ret = <<"string">>] }
=============================================================================
