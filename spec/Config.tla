------------------------------- MODULE Config -------------------------------
(***************************************************************************)
(* The configuration document of gleece and its up-front validation        *)
(* (property C20).                                                          *)
(*                                                                         *)
(* State: the document being authored - a function from field path to a    *)
(* value token - starting from a valid base document that contains every   *)
(* optional field; the author applies up to MaxEdits edits (delete a       *)
(* field, set it to a wrong-typed / empty / malformed value, set it to     *)
(* another admissible value), then submits it.  LoadConfig either rejects  *)
(* (pc = "failed": nothing loaded, file system unchanged) or accepts, and  *)
(* only then the later phases (source analysis, routes, spec) may run.     *)
(*                                                                         *)
(* Declarative part:                                                       *)
(*   Rule(doc, f)        the `validate:` constraint of field f of          *)
(*                       definitions.GleeceConfig, restated over tokens    *)
(*   ParseOK(doc)        every live field has the JSON type of its Go field*)
(*   ConfigValid(doc)    ParseOK and every Rule                            *)
(*   Names(doc)          fields at fault: the message must name one        *)
(*   ExpectedOutputs(doc) what an accepted document obliges the run to     *)
(*                       produce                                           *)
(* Value tokens: a token is the literal JSON string value, or one of the   *)
(* marks "#ABSENT" "#NULL" "#OBJ" (object, children are fields of their    *)
(* own) "#LIST" (array, children "<path>.0" ...) "#EMPTYLIST" "#TRUE"      *)
(* "#FALSE", or a wrong-typed mark "#NUM" (42) "#STRX" ("x") "#ARRNUM"     *)
(* ([7]) "#OBJX" ({"x":1}); glob lists and scope lists are named tokens.   *)
(* String predicates TLC cannot compute (URL, e-mail, first character,     *)
(* existing directory) are tables over the tokens in use; permission       *)
(* strings and glob patterns are computed structurally.                    *)
(***************************************************************************)
EXTENDS Naturals, Sequences, FiniteSets, TLC, Json

CONSTANTS MaxEdits,        \* bound on the number of edited fields
          Editable,        \* set of field paths the author may edit in this run
          UseBad,          \* BOOLEAN: corruptions offered
          UseGood,         \* BOOLEAN: other admissible values offered
          AllowedTokens,   \* {} = no filter; otherwise only these tokens may be written
          StaleChoices,    \* subset of BOOLEAN: do output files of an earlier run exist
          ChmodExisting,   \* BOOLEAN: the configured permissions are applied to an existing routes file too (the property); FALSE = as built
          KindLabel        \* label copied into the emitted cases

VARIABLES doc, pc, loaded, fs, stale
vars == <<doc, pc, loaded, fs, stale>>

R == "routesConfig"
A == "routesConfig.authorizationConfig"
O == "openapiGeneratorConfig"
I == "openapiGeneratorConfig.info"
S0 == "openapiGeneratorConfig.securitySchemes.0"
S1 == "openapiGeneratorConfig.securitySchemes.1"
S2 == "openapiGeneratorConfig.securitySchemes.2"          \* an oauth2 scheme with two flows whose scope maps differ
FL == S2 \o ".flows"
D == "openapiGeneratorConfig.defaultSecurity"

F(path, parent, kind, go, json, base) == [path |-> path, parent |-> parent, kind |-> kind, names |-> ({go, json, path} \ {""}), base |-> base]

\* the document, parents before children.  names = how an error message may name the field: Go field name, dotted path, or the
\* JSON key when that key is not an everyday word (a key like "type" or "name" occurs in error prose by accident: json = "").
FieldOrder == <<
  F("commonConfig", "", "section", "CommonConfig", "commonConfig", "#OBJ"),
  F("commonConfig.controllerGlobs", "commonConfig", "strlist", "ControllerGlobs", "controllerGlobs", "g_pkgs"),
  F(R, "", "section", "RoutesConfig", "routesConfig", "#OBJ"),
  F(R \o ".engine", R, "string", "Engine", "", "gin"),
  F(R \o ".packageName", R, "string", "PackageName", "packageName", "api"),
  F(R \o ".outputPath", R, "string", "OutputPath", "outputPath", "./routes/gleece.go"),
  F(R \o ".outputFilePerms", R, "string", "OutputFilePerms", "outputFilePerms", "0600"),
  F(R \o ".skipGenerateDateComment", R, "bool", "SkipGenerateDateComment", "skipGenerateDateComment", "#TRUE"),
  F(R \o ".templateOverrides", R, "map", "TemplateOverrides", "templateOverrides", "#ABSENT"),
  F(A, R, "section", "AuthorizationConfig", "authorizationConfig", "#OBJ"),
  F(A \o ".authFileFullPackageName", A, "string", "AuthFileFullPackageName", "authFileFullPackageName", "example.com/vcase/auth"),
  F(A \o ".enforceSecurityOnAllRoutes", A, "bool", "EnforceSecurityOnAllRoutes", "enforceSecurityOnAllRoutes", "#FALSE"),
  F(O, "", "section", "OpenAPIGeneratorConfig", "openapiGeneratorConfig", "#OBJ"),
  F(O \o ".openapi", O, "string", "OpenAPI", "openapi", "3.0.0"),
  F(I, O, "section", "Info", "", "#OBJ"),
  F(I \o ".title", I, "string", "Title", "", "Case API"),
  F(I \o ".description", I, "string", "Description", "", "generated case"),
  F(I \o ".termsOfService", I, "string", "TermsOfService", "termsOfService", "https://example.com/tos"),
  F(I \o ".version", I, "string", "Version", "", "1.2.3"),
  F(I \o ".contact", I, "section", "Contact", "", "#OBJ"),
  F(I \o ".contact.name", I \o ".contact", "string", "Name", "", "Dev Team"),
  F(I \o ".contact.url", I \o ".contact", "string", "URL", "", "https://example.com/dev"),
  F(I \o ".contact.email", I \o ".contact", "string", "Email", "", "dev@example.com"),
  F(I \o ".license", I, "section", "License", "", "#OBJ"),
  F(I \o ".license.name", I \o ".license", "string", "Name", "", "MIT"),
  F(I \o ".license.url", I \o ".license", "string", "URL", "", "https://opensource.org/licenses/MIT"),
  F(O \o ".baseUrl", O, "string", "BaseURL", "baseUrl", "https://api.example.com/v1"),
  F(O \o ".securitySchemes", O, "list", "SecuritySchemes", "securitySchemes", "#LIST"),
  F(S0, O \o ".securitySchemes", "section", "SecuritySchemes", "securitySchemes", "#OBJ"),
  F(S0 \o ".description", S0, "string", "Description", "", "scheme sec1"),
  F(S0 \o ".name", S0, "string", "SecurityName", "", "sec1"),
  F(S0 \o ".fieldName", S0, "string", "FieldName", "fieldName", "x-sec1"),
  F(S0 \o ".type", S0, "string", "Type", "", "apiKey"),
  F(S0 \o ".in", S0, "string", "In", "", "header"),
  F(S1, O \o ".securitySchemes", "section", "SecuritySchemes", "securitySchemes", "#OBJ"),
  F(S1 \o ".description", S1, "string", "Description", "", "scheme sec2"),
  F(S1 \o ".name", S1, "string", "SecurityName", "", "sec2"),
  F(S1 \o ".type", S1, "string", "Type", "", "http"),
  F(S1 \o ".scheme", S1, "string", "Scheme", "", "bearer"),
  F(S1 \o ".openIdConnectUrl", S1, "string", "OpenIdConnectUrl", "openIdConnectUrl", "#ABSENT"),
  F(S2, O \o ".securitySchemes", "section", "SecuritySchemes", "securitySchemes", "#OBJ"),
  F(S2 \o ".description", S2, "string", "Description", "", "scheme sec3"),
  F(S2 \o ".name", S2, "string", "SecurityName", "", "sec3"),
  F(S2 \o ".type", S2, "string", "Type", "", "oauth2"),
  F(FL, S2, "section", "Flows", "flows", "#OBJ"),
  F(FL \o ".clientCredentials", FL, "section", "ClientCredentials", "clientCredentials", "#OBJ"),
  F(FL \o ".clientCredentials.tokenUrl", FL \o ".clientCredentials", "string", "TokenURL", "tokenUrl", "https://auth.example.com/token"),
  F(FL \o ".clientCredentials.scopes", FL \o ".clientCredentials", "map", "Scopes", "", "#SCOPES_RWA"),
  F(FL \o ".authorizationCode", FL, "section", "AuthorizationCode", "authorizationCode", "#OBJ"),
  F(FL \o ".authorizationCode.authorizationUrl", FL \o ".authorizationCode", "string", "AuthorizationURL", "authorizationUrl", "https://auth.example.com/authorize"),
  F(FL \o ".authorizationCode.tokenUrl", FL \o ".authorizationCode", "string", "TokenURL", "tokenUrl", "https://auth.example.com/token"),
  F(FL \o ".authorizationCode.scopes", FL \o ".authorizationCode", "map", "Scopes", "", "#SCOPES_R"),
  F(D, O, "section", "DefaultRouteSecurity", "defaultSecurity", "#OBJ"),
  F(D \o ".name", D, "string", "SchemaName", "", "sec1"),
  F(D \o ".scopes", D, "strlist", "Scopes", "", "sc_read"),
  F(O \o ".specGeneratorConfig", O, "section", "SpecGeneratorConfig", "specGeneratorConfig", "#OBJ"),
  F(O \o ".specGeneratorConfig.outputPath", O \o ".specGeneratorConfig", "string", "OutputPath", "outputPath", "./dist/openapi.json"),
  F("experimentalConfig", "", "section", "ExperimentalConfig", "experimentalConfig", "#ABSENT")
>>

NF == Len(FieldOrder)
Fields == {FieldOrder[i].path : i \in 1..NF}
Rec(f) == CHOOSE r \in {FieldOrder[i] : i \in 1..NF} : r.path = f
Meta == [f \in Fields |-> Rec(f)]
Base == [f \in Fields |-> Meta[f].base]

Containers == {"#OBJ", "#LIST"}
RECURSIVE Live(_, _)
Live(d, f) == LET p == Meta[f].parent IN IF p = "" THEN TRUE ELSE (d[p] \in Containers /\ Live(d, p))
Eff(d, f) == IF Live(d, f) THEN d[f] ELSE "#ABSENT"
Present(d, f) == Eff(d, f) \notin {"#ABSENT", "#NULL"}
Marks == {"#ABSENT", "#NULL", "#OBJ", "#LIST", "#EMPTYLIST", "#TRUE", "#FALSE", "#NUM", "#STRX", "#ARRNUM", "#OBJX", "#SCOPES_RWA", "#SCOPES_R"}
\* scope maps (name -> description) as data; the two flows of one scheme deliberately carry different maps
ScopeMaps == ("#SCOPES_RWA" :> [read |-> "Read access", write |-> "Write access", admin |-> "Administrative access"]) @@ ("#SCOPES_R" :> [read |-> "Read only"])
Str(d, f) == IF Eff(d, f) \in Marks THEN "" ELSE Eff(d, f)   \* the string value; the Go zero value when unset

\* ---------------------------------------------------------------------------------------------------------------
\* JSON typing: which marks do not unmarshal into the Go field of that kind
WrongFor(kind) == CASE kind = "string"  -> {"#NUM", "#TRUE", "#ARRNUM", "#OBJX"}
                    [] kind = "bool"    -> {"#NUM", "#STRX"}
                    [] kind = "section" -> {"#NUM", "#STRX", "#ARRNUM", "#TRUE"}
                    [] kind = "map"     -> {"#NUM", "#STRX", "#ARRNUM"}
                    [] kind = "strlist" -> {"#NUM", "#STRX", "#OBJX", "#ARRNUM"}
                    [] kind = "list"    -> {"#NUM", "#STRX", "#OBJX", "#ARRNUM"}
WrongTyped(d) == {f \in Fields : Live(d, f) /\ d[f] \in WrongFor(Meta[f].kind)}
ParseOK(d) == WrongTyped(d) = {}

\* ---------------------------------------------------------------------------------------------------------------
\* token tables
Engines == {"gin", "echo", "mux", "fiber", "chi"}                       \* oneof=gin echo mux fiber chi
Versions == {"3.0.0", "3.1.0"}                                         \* oneof=3.0.0 3.1.0
HttpSchemes == {"basic", "bearer", "digest", "hoba", "mutual", "negotiate", "oauth", "scram-sha-1", "scram-sha-256", "vapid"}
SchemeTypes == {"apiKey", "oauth2", "openIdConnect", "http"}           \* security_schema_type
SchemeIns == {"", "query", "header", "cookie"}                          \* security_schema_in
GoodUrls == {"https://api.example.com/v1", "http://localhost:8080", "https://id.example.com/.well-known"}   \* `url`: parses, has a scheme and a host
BadUrls == {"not a url", "api.example.com/v1", "/v1", "http://"}
GoodEmails == {"dev@example.com", "a.b@example.org"}
BadEmails == {"not-an-email", "dev@", "@example.com"}
NonLetterFirst == {"1sec", "9field", "_x"}                             \* starts_with_letter fails on these
ExistingDirs == {"./p1", "p2", "auth"}                                  \* directories of the fixed project: `filepath` refuses them
DirLike == {"./out/", "  "}                                             \* trailing separator / blank: `filepath` refuses them

IsUrl(s) == s \in GoodUrls
IsEmail(s) == s \in GoodEmails
StartsWithLetter(s) == s = "" \/ s \notin NonLetterFirst
IsFilePath(s) == s \notin ExistingDirs /\ s \notin DirLike /\ s # ""

\* permission strings, character by character: regex=^(0?[0-7]{3})?$
PermChars == [ p0 \in {""} |-> <<>> ] @@
             ("0600" :> <<"0","6","0","0">>) @@ ("644" :> <<"6","4","4">>) @@ ("0777" :> <<"0","7","7","7">>) @@ ("0640" :> <<"0","6","4","0">>) @@ ("755" :> <<"7","5","5">>) @@ ("600" :> <<"6","0","0">>) @@
             ("888" :> <<"8","8","8">>) @@ ("64" :> <<"6","4">>) @@ ("07777" :> <<"0","7","7","7","7">>) @@ ("1644" :> <<"1","6","4","4">>) @@
             ("rw-r--r--" :> <<"r","w","-","r","-","-","r","-","-">>)
Octal == {"0", "1", "2", "3", "4", "5", "6", "7"}
PermOK(s) == LET c == PermChars[s] IN
             \/ Len(c) = 0
             \/ Len(c) = 3 /\ \A i \in 1..3 : c[i] \in Octal
             \/ Len(c) = 4 /\ c[1] = "0" /\ \A i \in 2..4 : c[i] \in Octal
\* the mode of the written file, as `ls` would print it in octal: default 0644 when no permission string is configured
PermMode(s) == LET c == PermChars[s] IN IF Len(c) = 0 THEN "0644" ELSE IF Len(c) = 3 THEN "0" \o s ELSE s

\* globs: a pattern is a sequence of segments; "**" spans any number of directories; wildcard segments by table
GoFileNames == {"a.go", "b.go", "c.go", "auth.go", "gleece.go", "router.go"}
SegMatch(p, s) == CASE p = "*.go" -> s \in GoFileNames
                    [] p = "p*"   -> s \in {"p1", "p2"}
                    [] p = "*"    -> TRUE
                    [] OTHER      -> p = s
RECURSIVE GMatch(_, _)
GMatch(pat, path) ==
    IF pat = <<>> THEN path = <<>>
    ELSE IF Head(pat) = "**" THEN GMatch(Tail(pat), path) \/ (path # <<>> /\ GMatch(pat, Tail(path)))
    ELSE path # <<>> /\ SegMatch(Head(pat), Head(path)) /\ GMatch(Tail(pat), Tail(path))

G(text, pats) == [text |-> text, pats |-> pats]
GlobTokens == ("g_pkgs" :> G(<<"./p*/*.go">>, {<<"p*", "*.go">>})) @@
              ("g_p1"   :> G(<<"./p1/*.go">>, {<<"p1", "*.go">>})) @@
              ("g_a"    :> G(<<"./p1/a.go">>, {<<"p1", "a.go">>})) @@
              ("g_a_p2" :> G(<<"./p1/a.go", "./p2/*.go">>, {<<"p1", "a.go">>, <<"p2", "*.go">>})) @@
              ("g_b"    :> G(<<"./p2/b.go">>, {<<"p2", "b.go">>})) @@
              ("g_deep" :> G(<<"./**/c.go", "p2/b.go">>, {<<"**", "c.go">>, <<"p2", "b.go">>}))
\* providers.NewArbitrationProviderConfig: no globs configured = "./*.go" and "./**/*.go"
DefaultGlobPats == {<<"*.go">>, <<"**", "*.go">>}
ListTokens == ("sc_read" :> <<"read">>)

\* the fixed project the document is used with
C(pkg, file, name, prefix) == [pkg |-> pkg, file |-> file, name |-> name, prefix |-> prefix]
Project == <<C("p1", "a", "AController", "/a"), C("p1", "c", "CController", "/c"), C("p2", "b", "BController", "/b")>>
FilePath(c) == <<c.pkg, c.file \o ".go">>

GlobPats(d) == LET f == "commonConfig.controllerGlobs" IN
               IF Present(d, f) /\ Eff(d, f) # "#EMPTYLIST" THEN GlobTokens[Eff(d, f)].pats ELSE DefaultGlobPats
MatchedFiles(d) == {FilePath(Project[i]) : i \in {j \in 1..Len(Project) : \E p \in GlobPats(d) : GMatch(p, FilePath(Project[j]))}}
MatchedControllers(d) == {Project[i].name : i \in {j \in 1..Len(Project) : FilePath(Project[j]) \in MatchedFiles(d)}}

\* ---------------------------------------------------------------------------------------------------------------
\* the constraint table: field -> predicate (struct tags of definitions.GleeceConfig and the custom validators)
Required(d, f) == Str(d, f) # ""
SchemeRules(d, s) ==
    (s \o ".description" :> Required(d, s \o ".description")) @@                                                     \* required
    (s \o ".name"        :> (Required(d, s \o ".name") /\ StartsWithLetter(Str(d, s \o ".name")))) @@               \* required,starts_with_letter
    (s \o ".type"        :> (Required(d, s \o ".type") /\ Str(d, s \o ".type") \in SchemeTypes))                     \* required,security_schema_type
RuleTable(d) ==
    ("commonConfig" :> Present(d, "commonConfig")) @@                                                                \* required
    ("commonConfig.controllerGlobs" :> (Eff(d, "commonConfig.controllerGlobs") # "#EMPTYLIST")) @@                   \* omitempty,min=1
    (R :> Present(d, R)) @@                                                                                          \* required
    (R \o ".engine" :> (Str(d, R \o ".engine") \in Engines)) @@                                                      \* required,oneof
    (R \o ".outputPath" :> IsFilePath(Str(d, R \o ".outputPath"))) @@                                                \* required,filepath
    (R \o ".outputFilePerms" :> PermOK(Str(d, R \o ".outputFilePerms"))) @@                                          \* regex
    (A :> Present(d, A)) @@                                                                                          \* required
    (A \o ".authFileFullPackageName" :> IsFilePath(Str(d, A \o ".authFileFullPackageName"))) @@                      \* required,filepath
    (O :> Present(d, O)) @@                                                                                          \* required
    (O \o ".openapi" :> (Str(d, O \o ".openapi") \in Versions)) @@                                                   \* required,oneof
    (I :> Present(d, I)) @@                                                                                          \* required
    (I \o ".title" :> Required(d, I \o ".title")) @@                                                                 \* required
    (I \o ".version" :> Required(d, I \o ".version")) @@                                                             \* required
    (I \o ".contact.email" :> (Present(d, I \o ".contact") => IsEmail(Str(d, I \o ".contact.email")))) @@            \* email (no omitempty)
    (I \o ".license.name" :> (Present(d, I \o ".license") => Required(d, I \o ".license.name"))) @@                  \* required
    (O \o ".baseUrl" :> IsUrl(Str(d, O \o ".baseUrl"))) @@                                                           \* required,url
    (IF Present(d, S0) THEN SchemeRules(d, S0) @@
        (S0 \o ".fieldName" :> StartsWithLetter(Str(d, S0 \o ".fieldName"))) @@                                      \* starts_with_letter
        (S0 \o ".in" :> (Str(d, S0 \o ".in") \in SchemeIns))                                                         \* security_schema_in
     ELSE (S0 :> TRUE)) @@
    (IF Present(d, S1) THEN SchemeRules(d, S1) @@
        (S1 \o ".scheme" :> (Str(d, S1 \o ".scheme") = "" \/ Str(d, S1 \o ".scheme") \in HttpSchemes)) @@            \* omitempty,oneof
        (S1 \o ".openIdConnectUrl" :> (Str(d, S1 \o ".openIdConnectUrl") = "" \/ IsUrl(Str(d, S1 \o ".openIdConnectUrl"))))  \* omitempty,url
     ELSE (S1 :> TRUE)) @@
    (IF Present(d, S2) THEN SchemeRules(d, S2) ELSE (S2 :> TRUE)) @@
    (D \o ".name" :> (Present(d, D) => (Required(d, D \o ".name") /\ StartsWithLetter(Str(d, D \o ".name"))))) @@    \* required,starts_with_letter
    (D \o ".scopes" :> (Present(d, D) => Present(d, D \o ".scopes"))) @@                                             \* not_nil_array
    (O \o ".specGeneratorConfig" :> Present(d, O \o ".specGeneratorConfig")) @@                                      \* required
    (O \o ".specGeneratorConfig.outputPath" :> Required(d, O \o ".specGeneratorConfig.outputPath"))                  \* required

RuleViolated(d) == LET t == RuleTable(d) IN {f \in DOMAIN t : ~t[f]}
ConfigValid(d) == ParseOK(d) /\ RuleViolated(d) = {}
AtFault(d) == IF ParseOK(d) THEN RuleViolated(d) ELSE WrongTyped(d)
Stage(d) == IF ~ParseOK(d) THEN "parse" ELSE IF RuleViolated(d) # {} THEN "validate" ELSE ""
Names(d) == UNION {Meta[f].names : f \in AtFault(d)}

\* cross-reference assumption (not a declared constraint, kept out of the explored space): the default security and the
\* scheme list agree, and an apiKey / http scheme keeps the attributes OpenAPI itself demands
DeclaredSchemes(d) == {Str(d, s \o ".name") : s \in {x \in {S0, S1, S2} : Present(d, O \o ".securitySchemes") /\ Eff(d, O \o ".securitySchemes") = "#LIST" /\ Present(d, x)}}
InScope(d) == IF Present(d, D) /\ ConfigValid(d) THEN Str(d, D \o ".name") \in DeclaredSchemes(d) ELSE TRUE

\* ---------------------------------------------------------------------------------------------------------------
\* what an accepted document obliges the run to produce
EngineMarker == ("gin" :> "Gin") @@ ("echo" :> "Echo") @@ ("mux" :> "Gorilla Mux") @@ ("fiber" :> "Fiber") @@ ("chi" :> "Chi")
StrKeys(d, prefix, keys) == [k \in {x \in keys : Str(d, prefix \o "." \o x) # ""} |-> Str(d, prefix \o "." \o k)]
InfoOf(d) == StrKeys(d, I, {"title", "description", "termsOfService", "version"}) @@
             (IF Present(d, I \o ".contact") THEN ("contact" :> StrKeys(d, I \o ".contact", {"name", "url", "email"})) ELSE <<>>) @@
             (IF Present(d, I \o ".license") THEN ("license" :> StrKeys(d, I \o ".license", {"name", "url"})) ELSE <<>>)
\* a scheme is copied attribute by attribute; the configuration's fieldName is OpenAPI's name
SchemeAttrs(d, s) == LET src == ("type" :> "type") @@ ("in" :> "in") @@ ("name" :> "fieldName") @@ ("description" :> "description") @@
                                ("scheme" :> "scheme") @@ ("openIdConnectUrl" :> "openIdConnectUrl")
                         has(k) == (s \o "." \o src[k]) \in Fields /\ Str(d, s \o "." \o src[k]) # ""
                     IN [k \in {x \in DOMAIN src : has(x)} |-> Str(d, s \o "." \o src[k])]
\* oauth2 flows are copied flow by flow: its URLs and its OWN scope map
FlowNames == {"clientCredentials", "authorizationCode"}
FlowOf(d, fl) == StrKeys(d, FL \o "." \o fl, {k \in {"authorizationUrl", "tokenUrl", "refreshUrl"} : (FL \o "." \o fl \o "." \o k) \in Fields}) @@
                 (IF Eff(d, FL \o "." \o fl \o ".scopes") \in DOMAIN ScopeMaps THEN ("scopes" :> ScopeMaps[Eff(d, FL \o "." \o fl \o ".scopes")]) ELSE <<>>)
FlowsOf(d) == [fl \in {x \in FlowNames : Present(d, FL \o "." \o x)} |-> FlowOf(d, fl)]
SchemeAttrsF(d, s) == IF s = S2 /\ Present(d, FL) THEN SchemeAttrs(d, s) @@ ("flows" :> FlowsOf(d)) ELSE SchemeAttrs(d, s)
SchemesOf(d) == IF Present(d, O \o ".securitySchemes") /\ Eff(d, O \o ".securitySchemes") = "#LIST"
                THEN {[key |-> Str(d, s \o ".name"), attrs |-> SchemeAttrsF(d, s)] : s \in {x \in {S0, S1, S2} : Present(d, x)}} ELSE {}
PkgOf(d) == IF Str(d, R \o ".packageName") = "" THEN "routes" ELSE Str(d, R \o ".packageName")
ExpectedOutputs(d) ==
    [routesPath |-> Str(d, R \o ".outputPath"), mode |-> PermMode(Str(d, R \o ".outputFilePerms")), pkg |-> PkgOf(d),
     engineMarker |-> EngineMarker[Str(d, R \o ".engine")],
     specPath |-> Str(d, O \o ".specGeneratorConfig.outputPath"), version |-> Str(d, O \o ".openapi"),
     info |-> InfoOf(d), servers |-> <<Str(d, O \o ".baseUrl")>>, schemes |-> SchemesOf(d),
     controllers |-> MatchedControllers(d)]

\* ---------------------------------------------------------------------------------------------------------------
\* the author's alternatives per field
WrongAlt(f) == LET k == Meta[f].kind IN
               CASE k = "string" -> {"#NUM", "#OBJX"} [] k = "bool" -> {"#STRX"} [] k = "section" -> {"#STRX", "#ARRNUM"}
                 [] k = "map" -> {"#NUM"} [] k = "strlist" -> {"#STRX", "#OBJX"} [] k = "list" -> {"#STRX", "#OBJX"}
BadVals(f) ==
    CASE f = "commonConfig" -> {"#ABSENT", "#NULL"}
      [] f = "commonConfig.controllerGlobs" -> {"#EMPTYLIST"}
      [] f \in {R, A, O, I, O \o ".specGeneratorConfig"} -> {"#ABSENT", "#NULL"}
      [] f = R \o ".engine" -> {"#ABSENT", "", "nope", "Gin"}
      [] f = R \o ".outputPath" -> {"#ABSENT", "", "./p1", "./out/", "  "}
      [] f = R \o ".outputFilePerms" -> {"888", "64", "07777", "rw-r--r--", "1644"}
      [] f = A \o ".authFileFullPackageName" -> {"#ABSENT", "", "auth"}
      [] f = O \o ".openapi" -> {"#ABSENT", "", "3.0.1", "2.0", "3.1"}
      [] f \in {I \o ".title", I \o ".version"} -> {"#ABSENT", "", "#NULL"}
      [] f = I \o ".contact.email" -> {"#ABSENT", ""} \cup BadEmails
      [] f = I \o ".license.name" -> {"#ABSENT", ""}
      [] f = O \o ".baseUrl" -> {"#ABSENT", ""} \cup BadUrls
      [] f \in {S0 \o ".description", S1 \o ".description"} -> {"#ABSENT", ""}
      [] f \in {S0 \o ".name", S1 \o ".name"} -> {"#ABSENT", "", "1sec"}
      [] f = S0 \o ".fieldName" -> {"9field"}
      [] f = S0 \o ".type" -> {"#ABSENT", "", "apikey", "bearer"}
      [] f = S1 \o ".type" -> {"#ABSENT", "HTTP"}
      [] f = S0 \o ".in" -> {"body", "Header"}
      [] f = S1 \o ".scheme" -> {"token", "Bearer"}
      [] f = S1 \o ".openIdConnectUrl" -> {"nope", "/v1"}
      [] f = D \o ".name" -> {"#ABSENT", "", "1sec"}
      [] f = D \o ".scopes" -> {"#ABSENT", "#NULL"}
      [] f = O \o ".specGeneratorConfig.outputPath" -> {"#ABSENT", ""}
      [] OTHER -> {}
BadAlt(f) == WrongAlt(f) \cup BadVals(f)
GoodAlt(f) ==
    CASE f = "commonConfig.controllerGlobs" -> {"#ABSENT", "g_p1", "g_a", "g_a_p2", "g_b", "g_deep"}
      [] f = R \o ".engine" -> Engines
      [] f = R \o ".packageName" -> {"#ABSENT", "", "routes", "myapi"}
      [] f = R \o ".outputPath" -> {"./gen/api/router.go"}
      [] f = R \o ".outputFilePerms" -> {"#ABSENT", "", "644", "0777", "0640", "755", "600"}
      [] f = R \o ".templateOverrides" -> {"#OBJ"}
      [] f = O \o ".openapi" -> Versions
      [] f \in {I \o ".description", I \o ".termsOfService"} -> {"#ABSENT", ""}
      [] f \in {I \o ".contact", I \o ".license", D} -> {"#ABSENT", "#NULL"}
      [] f \in {I \o ".contact.name", I \o ".contact.url", I \o ".license.url"} -> {"#ABSENT"}
      [] f = I \o ".contact.email" -> {"a.b@example.org"}
      [] f = O \o ".baseUrl" -> {"http://localhost:8080"}
      [] f = S0 \o ".in" -> {"query", "cookie"}
      [] f = S1 -> {"#ABSENT"}
      [] f = S1 \o ".scheme" -> {"basic"}
      [] f = D \o ".scopes" -> {"#EMPTYLIST"}
      [] f = O \o ".specGeneratorConfig.outputPath" -> {"./api/spec.json"}
      [] f = "experimentalConfig" -> {"#OBJ"}
      [] OTHER -> {}
Alt(f) == ((IF UseBad THEN BadAlt(f) ELSE {}) \cup (IF UseGood THEN GoodAlt(f) ELSE {})) \ {Base[f]}
Allowed(t) == IF AllowedTokens = {} THEN TRUE ELSE t \in AllowedTokens
Diff(d) == {f \in Fields : d[f] # Base[f]}

\* ---------------------------------------------------------------------------------------------------------------
\* the session
StaleMode == "0600"   \* the mode of the outputs an earlier run with the base document left
RoutesPath(d) == Str(d, R \o ".outputPath")
SpecPath(d) == Str(d, O \o ".specGeneratorConfig.outputPath")
StalePaths(d) == {p \in {RoutesPath(d), SpecPath(d)} : IsFilePath(p)} \cup (IF ConfigValid(d) THEN {} ELSE {Base[R \o ".outputPath"], Base[O \o ".specGeneratorConfig.outputPath"]})
File(path, what, mode, pkg, engine, version) == [path |-> path, what |-> what, mode |-> mode, pkg |-> pkg, engine |-> engine, version |-> version]
StaleFiles(d) == {File(p, "stale", StaleMode, "", "", "") : p \in StalePaths(d)}

Init == /\ doc = Base /\ pc = "authoring" /\ loaded = {} /\ fs = {} /\ stale \in StaleChoices

Edit(f, t) == /\ pc = "authoring" /\ doc[f] = Base[f] /\ Live(doc, f) /\ Allowed(t)
              /\ Cardinality(Diff(doc)) < MaxEdits
              /\ doc' = [doc EXCEPT ![f] = t]
              /\ UNCHANGED <<pc, loaded, fs, stale>>

\* the document is submitted together with the world it is used in: the earlier run's outputs exist or not
Submit == /\ pc = "authoring" /\ InScope(doc)
          /\ pc' = "submitted" /\ fs' = IF stale THEN StaleFiles(doc) ELSE {}
          /\ UNCHANGED <<doc, loaded, stale>>

LoadConfig == /\ pc = "submitted"
              /\ pc' = IF ConfigValid(doc) THEN "accepted" ELSE "failed"
              /\ UNCHANGED <<doc, loaded, fs, stale>>

Analyse == /\ pc = "accepted" /\ loaded' = MatchedFiles(doc) /\ pc' = "analysed" /\ UNCHANGED <<doc, fs, stale>>

WriteRoutes == /\ pc = "analysed"
               /\ LET p == RoutesPath(doc)
                      old == {x \in fs : x.path = p}
                      mode == IF ChmodExisting \/ old = {} THEN PermMode(Str(doc, R \o ".outputFilePerms")) ELSE (CHOOSE x \in old : TRUE).mode
                  IN fs' = (fs \ old) \cup {File(p, "routes", mode, PkgOf(doc), Str(doc, R \o ".engine"), "")}
               /\ pc' = "routes" /\ UNCHANGED <<doc, loaded, stale>>

WriteSpec == /\ pc = "routes"
             /\ LET p == SpecPath(doc)
                    old == {x \in fs : x.path = p}
                IN fs' = (fs \ old) \cup {File(p, "spec", "0644", "", "", Str(doc, O \o ".openapi"))}
             /\ pc' = "done" /\ UNCHANGED <<doc, loaded, stale>>

Next == \/ \E f \in Editable : \E t \in Alt(f) : Edit(f, t)
        \/ Submit \/ LoadConfig \/ Analyse \/ WriteRoutes \/ WriteSpec

Spec == Init /\ [][Next]_vars

\* ---------------------------------------------------------------------------------------------------------------
\* properties
TypeOK == /\ pc \in {"authoring", "submitted", "accepted", "failed", "analysed", "routes", "done"}
          /\ \A f \in Fields : doc[f] \in STRING

\* C20, first half: while the document violates a declared constraint no source file is loaded and nothing is written
C20_ConfigFirst == [][(pc # "authoring" /\ ~ConfigValid(doc)) => (loaded' = {} /\ fs' = fs)]_vars
C20_RejectedIsFinal == pc = "failed" => (loaded = {} /\ fs = (IF stale THEN StaleFiles(doc) ELSE {}) /\ ~ConfigValid(doc) /\ Names(doc) # {})
C20_OnlyValidProceeds == pc \in {"accepted", "analysed", "routes", "done"} => ConfigValid(doc)
\* C20, second half: the run of an accepted document ends with exactly the configured artifacts
C20_Honoured == pc = "done" =>
    LET e == ExpectedOutputs(doc) IN
    /\ loaded = MatchedFiles(doc)
    /\ \E x \in fs : x.path = e.routesPath /\ x.what = "routes" /\ x.mode = e.mode /\ x.pkg = e.pkg /\ EngineMarker[x.engine] = e.engineMarker
    /\ \E x \in fs : x.path = e.specPath /\ x.what = "spec" /\ x.version = e.version
    /\ \A x \in fs : x.path \in {e.routesPath, e.specPath} /\ x.what # "stale"
\* sanity of the tables themselves
BaseIsValid == pc = "authoring" /\ doc = Base => ConfigValid(doc)

\* ---------------------------------------------------------------------------------------------------------------
\* emission: one CASE per submitted document
TokOp(t) == CASE t = "#NULL" -> "null" [] t = "#OBJ" -> "emptyobj" [] t \in {"#LIST", "#EMPTYLIST"} -> "emptylist" [] t = "#ABSENT" -> "delete" [] OTHER -> "set"
TokVal(t) == CASE t = "#NUM" -> 42 [] t = "#TRUE" -> TRUE [] t = "#FALSE" -> FALSE [] t = "#STRX" -> "x" [] t = "#ARRNUM" -> <<7>> [] t = "#OBJX" -> [x |-> 1]
               [] t \in DOMAIN GlobTokens -> GlobTokens[t].text [] t \in DOMAIN ListTokens -> ListTokens[t]
               [] t \in DOMAIN ScopeMaps -> ScopeMaps[t]
               [] t \in {"#NULL", "#OBJ", "#LIST", "#EMPTYLIST", "#ABSENT"} -> ""
               [] OTHER -> t
EditRec(f, t) == [path |-> f, op |-> TokOp(t), value |-> TokVal(t)]
RECURSIVE DocSeq(_, _)
DocSeq(d, i) == IF i > NF THEN <<>> ELSE
                LET f == FieldOrder[i].path IN
                (IF Live(d, f) /\ d[f] # "#ABSENT" THEN <<EditRec(f, d[f])>> ELSE <<>>) \o DocSeq(d, i + 1)
RECURSIVE PatchSeq(_, _)
PatchSeq(d, i) == IF i > NF THEN <<>> ELSE
                  LET f == FieldOrder[i].path IN
                  (IF d[f] # Base[f] THEN <<EditRec(f, d[f])>> ELSE <<>>) \o PatchSeq(d, i + 1)
Tags(d) == {Stage(d)} \cup {"fault:" \o f : f \in AtFault(d)}
CaseCommon(d) == [kind |-> KindLabel, doc |-> DocSeq(d, 1), patches |-> PatchSeq(d, 1), valid |-> ConfigValid(d), stage |-> Stage(d),
                  names |-> Names(d), stale |-> stale, staleAt |-> StalePaths(d), staleMode |-> StaleMode,
                  project |-> Project, tags |-> Tags(d)]
Emit == IF pc = "submitted"
        THEN (IF ConfigValid(doc) THEN PrintT("CASE " \o ToJson(CaseCommon(doc) @@ [expect |-> ExpectedOutputs(doc)]))
                                  ELSE PrintT("CASE " \o ToJson(CaseCommon(doc))))
        ELSE TRUE
=============================================================================
