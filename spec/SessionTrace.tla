---------------------------- MODULE SessionTrace ----------------------------
(***************************************************************************)
(* Direction B for C19: session_trace.ndjson is a log of real sessions.    *)
(* A line {"ev":"New"} is the creation of a pipeline.GleecePipeline, a     *)
(* line {"ev":"Call","call":c,"obs":o} one call on the current pipeline    *)
(* with the equalities the harness measured after it (against a fresh      *)
(* session of the same project measured in another process, and against    *)
(* the first measurement of this session).  The log is accepted iff every  *)
(* call is an enabled action of Session and every equality the             *)
(* specification fixes for the state reached holds in the log.  Acceptance *)
(* is by POSTCONDITION on the diameter: a line that is not explained       *)
(* leaves the search stuck at that line.                                   *)
(***************************************************************************)
EXTENDS Session, Json

Trace == ndJsonDeserialize("session_trace.ndjson")

VARIABLE l
tvars == <<vars, l>>

\* every field the expectation fixes is in the log with the same value (two levels: aspect, equality)
Aspects == {"flat", "diag", "spec", "graph", "serials"}
Covers(exp, obs) ==
    /\ obs.call = exp.call
    /\ obs.failed = exp.failed
    /\ \A a \in Aspects : \A k \in DOMAIN exp[a] : k \in DOMAIN obs[a] /\ obs[a][k] = exp[a][k]

TraceInit == Init /\ l = 1

TraceNew ==
    /\ l <= Len(Trace) /\ Trace[l].ev = "New"
    /\ hist' = <<>> /\ st' = New /\ out' = <<>>
    /\ l' = l + 1

TraceCall ==
    /\ l <= Len(Trace) /\ Trace[l].ev = "Call"
    /\ Call(Trace[l].call)
    /\ Covers(Expect(out'[Len(out')]), Trace[l].obs)
    /\ l' = l + 1

TraceNext == TraceNew \/ TraceCall
TraceSpec == TraceInit /\ [][TraceNext]_tvars

TraceAccepted == TLCGet("stats").diameter - 1 = Len(Trace)
=============================================================================
