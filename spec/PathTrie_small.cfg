SPECIFICATION Spec
CONSTANTS
  Templates <- TplSmall
  Verbs = {"GET","POST"}
  MaxLen = 3
  DedupByText = FALSE
INVARIANTS C15_Sound C15_Complete C15_OrderFree
CHECK_DEADLOCK FALSE
