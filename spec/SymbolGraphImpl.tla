--------------------------- MODULE SymbolGraphImpl ---------------------------
(***************************************************************************)
(* The symbol graph AS CODED (graphs/symboldg/graph.go), run in lock step  *)
(* with the abstract model of SymbolGraph.tla.                             *)
(*                                                                         *)
(* The Go type keeps four redundant indices, all keyed by the BASE id of a *)
(* symbol (the id without the file version):                               *)
(*     nodes   base -> node (carrying the version it was inserted with)    *)
(*     edges   from-base -> "kind::to-base" -> descriptor holding the FULL *)
(*             (versioned) From and To keys of the first insertion         *)
(*     deps    from-base -> set of FULL to-keys                            *)
(*     revDeps to-base   -> set of FULL from-keys                          *)
(* and its mutators are written against them:                              *)
(*   AddEdge     adds the adjacency entries unconditionally, the edge only *)
(*               when (from-base, kind, to-base) is new;                   *)
(*   RemoveEdge  deletes the edge(s), and the adjacency entries - matched  *)
(*               by base id - only when no edge of another kind remains;   *)
(*   RemoveNode  snapshots revDeps[k], and for every dependent IN MAP      *)
(*               ORDER removes its edges to k and, if that leaves it       *)
(*               without a dependency on an existing node, recursively     *)
(*               removes it; then drops k's outgoing edges and k itself;   *)
(*   idempotencyGuard (every Add call) evicts a node of another file version   *)
(*               through RemoveNode before inserting.                      *)
(*                                                                         *)
(* Every action below is the conjunction of the abstract action of         *)
(* SymbolGraph.tla and the implementation-level transformer with the same  *)
(* arguments.  The order in which RemoveNode meets the dependents is a Go  *)
(* map iteration: RN returns the SET of index states reachable under any   *)
(* order (at every level of the recursion).  TLC checks, in every          *)
(* reachable state and for every operation:                                *)
(*   Refines        the indices, read the way the public queries read them *)
(*                  (nodes; edges by base id), equal the abstract state;   *)
(*   IndexAgree     deps / revDeps hold exactly the base pairs that have   *)
(*                  an edge, in both directions (the four views agree);    *)
(*   Confluent      whatever order the dependents are met in, RemoveNode   *)
(*                  (and every eviction by the guard) ends in ONE state -  *)
(*                  indices included - so the map order is unobservable.   *)
(* The conformance harness reads the real indices through a build-tag      *)
(* guarded accessor and compares them with `Idx` after every operation.    *)
(***************************************************************************)
EXTENDS SymbolGraph

CONSTANT DropAdjacencyAlways   \* BOOLEAN: RemoveEdge as it was before the repair 82cca8a (adjacency dropped although an edge of
                               \* another kind remains) - TRUE only in the vacuity-guard configuration, where IndexAgree must fail

VARIABLES inodes,   \* [Keys -> [kind, ver]]                       g.nodes (+ lookupKeys)
          iedges,   \* SUBSET [f, t, k, fv, tv]                    g.edges: unique per (f, k, t); fv/tv = versions of the stored keys
          ideps,    \* [Keys -> SUBSET (Keys \X 0..2)]             g.deps
          irdeps    \* [Keys -> SUBSET (Keys \X 0..2)]             g.revDeps

ivars == <<inodes, iedges, ideps, irdeps>>
allvars == <<vars, ivars>>
iview == <<nodes, edges, ver, inodes, iedges, ideps, irdeps, Len(hist)>>

St(n, e, d, r) == [n |-> n, e |-> e, d |-> d, r |-> r]
Cur == St(inodes, iedges, ideps, irdeps)
VerOf(k) == IF k \in DKeys THEN ver[k] ELSE 0
Full(k) == <<k, VerOf(k)>>

--------------------------------------------------------------------------
(* the mutators, as coded *)

IAddEdge(S, a, b, kind) ==
    [S EXCEPT !.d = [S.d EXCEPT ![a] = @ \cup {Full(b)}],
              !.r = [S.r EXCEPT ![b] = @ \cup {Full(a)}],
              !.e = IF \E x \in S.e : x.f = a /\ x.t = b /\ x.k = kind THEN S.e
                    ELSE S.e \cup {[f |-> a, t |-> b, k |-> kind, fv |-> VerOf(a), tv |-> VerOf(b)]}]

IRemoveEdge(S, a, b, kind) ==
    LET e1 == {x \in S.e : ~(x.f = a /\ x.t = b /\ (kind = NIL \/ x.k = kind))} IN
    IF ~DropAdjacencyAlways /\ \E x \in e1 : x.f = a /\ x.t = b
    THEN [S EXCEPT !.e = e1]                                              \* another kind remains: adjacency is retained
    ELSE [S EXCEPT !.e = e1,
                   !.d = [S.d EXCEPT ![a] = {y \in @ : y[1] # b}],        \* matched by base id
                   !.r = [S.r EXCEPT ![b] = {y \in @ : y[1] # a}]]

IPresent(S, k) == S.n[k].kind # "none"

\* the end of RemoveNode: outgoing edges removed one by one (by kind), then the node's own index entries
IFinish(S, k) ==
    LET out == {x \in S.e : x.f = k}
        tos == {x.t : x \in out}
    IN  [S EXCEPT !.e = S.e \ out,
                  !.d = [S.d EXCEPT ![k] = {}],
                  !.r = [b \in Keys |-> IF b = k THEN {} ELSE IF b \in tos THEN {y \in S.r[b] : y[1] # k} ELSE S.r[b]],
                  !.n = [S.n EXCEPT ![k] = Absent]]

\* RemoveNode(k): the SET of final index states over every order of the dependents snapshot, at every level
RECURSIVE RN(_, _), RNLoop(_, _, _)
RN(S, k) == IF ~IPresent(S, k) THEN {S} ELSE RNLoop(S, k, S.r[k])
RNLoop(S, k, P) ==
    IF P = {} THEN {IFinish(S, k)}
    ELSE UNION { LET S1 == IRemoveEdge(S, y[1], k, NIL)
                     orphan == ~\E z \in S1.d[y[1]] : IPresent(S1, z[1])
                 IN  UNION { RNLoop(S2, k, P \ {y}) : S2 \in (IF orphan THEN RN(S1, y[1]) ELSE {S1}) }
               : y \in P }

IStale(S, k) == k \in DKeys /\ IPresent(S, k) /\ S.n[k].ver # ver[k]
IGuard(S, k) == IF IStale(S, k) THEN RN(S, k) ELSE {S}
IPut(S, k, kind) == IF IPresent(S, k) THEN S ELSE [S EXCEPT !.n = [S.n EXCEPT ![k] = [kind |-> kind, ver |-> VerOf(k)]]]

RECURSIVE IFields(_, _, _, _)
IFields(S, k, fs, i) == IF i > Len(fs) THEN S ELSE IFields(IAddEdge(S, k, fs[i], "fld"), k, fs, i + 1)

RECURSIVE IEnumValues(_, _, _, _)
IEnumValues(SS, k, vs, i) ==       \* SS: set of states (each guard may cascade)
    IF i > Len(vs) THEN SS
    ELSE IEnumValues(UNION { { IAddEdge(IAddEdge(IPut(S1, vs[i], "Constant"), k, vs[i], "val"), vs[i], "string", "ref") : S1 \in IGuard(S, vs[i]) } : S \in SS },
                     k, vs, i + 1)

Become(SS) == \E S \in SS : inodes' = S.n /\ iedges' = S.e /\ ideps' = S.d /\ irdeps' = S.r

--------------------------------------------------------------------------
(* lock step: abstract action /\ implementation transformer *)

LAddBuiltin(u) == AddBuiltin(u) /\ Become({IPut(Cur, u, UKind(u))})
LAddAlias(k)   == AddAlias(k)   /\ Become({IPut(S, k, "Alias") : S \in IGuard(Cur, k)})
LAddConst(k)   == AddConst(k)   /\ Become({IPut(S, k, "Constant") : S \in IGuard(Cur, k)})
LAddStruct(k, fs) == AddStruct(k, fs) /\ Become({IFields(IPut(S, k, "Struct"), k, fs, 1) : S \in IGuard(Cur, k)})
LAddField(k, t) ==
    /\ AddField(k, t)
    /\ Become({ LET S1 == IPut(S, k, "Field")
                    ok == t \in UKeys \/ IPresent(S1, t)
                    S2 == IF t \in UKeys THEN IPut(S1, t, UKind(t)) ELSE S1
                IN  IF ok THEN IAddEdge(S2, k, t, "ty") ELSE S2 : S \in IGuard(Cur, k) })
LAddEnum(k, vs) ==
    /\ AddEnum(k, vs)
    /\ Become(IEnumValues({IPut(IPut(S, k, "Enum"), "string", "Builtin") : S \in IGuard(Cur, k)}, k, vs, 1))
LAddEdge(a, b, kind)    == AddEdge(a, b, kind)    /\ Become({IAddEdge(Cur, a, b, kind)})
LRemoveEdge(a, b, kind) == RemoveEdge(a, b, kind) /\ Become({IRemoveEdge(Cur, a, b, kind)})
LRemoveNode(k)          == RemoveNode(k)          /\ Become(RN(Cur, k))
LTouch(k)               == Touch(k)               /\ UNCHANGED ivars

LInit == Init /\ inodes = [k \in Keys |-> Absent] /\ iedges = {} /\ ideps = [k \in Keys |-> {}] /\ irdeps = [k \in Keys |-> {}]

LStep == \/ \E u \in UKeys : LAddBuiltin(u)
         \/ \E k \in DKeys : LAddAlias(k) \/ LAddConst(k) \/ LTouch(k)
         \/ \E k \in DKeys : \E fs \in SeqsOver(DKeys \ {k}, MaxSet) : LAddStruct(k, fs) \/ LAddEnum(k, fs)
         \/ \E k \in DKeys : \E t \in Keys \ {k} : LAddField(k, t)
         \/ \E a, b \in Keys, kind \in FreeKinds : LAddEdge(a, b, kind)
         \/ \E a, b \in Keys, kind \in EdgeKinds \cup {NIL} : LRemoveEdge(a, b, kind)
         \/ \E k \in Keys : LRemoveNode(k)
LNext == Len(hist) < MaxDepth /\ LStep
LSpec == LInit /\ [][LNext]_allvars

\* random walks (one successor per state, see SymbolGraph.tla)
LSimStep ==
    \E name \in One({"AddBuiltin", "AddAlias", "AddConst", "Touch", "AddStruct", "AddEnum", "AddField",
                      "AddEdge", "AddEdge2", "AddEdge3", "RemoveEdge", "RemoveEdge2", "RemoveNode", "RemoveNode2"}) :
    \E k \in One(DKeys) : \E a \in One(Keys) : \E b \in One(Keys) :
        CASE name = "AddBuiltin" -> \E u \in One(UKeys) : LAddBuiltin(u)
          [] name = "AddAlias"   -> LAddAlias(k)
          [] name = "AddConst"   -> LAddConst(k)
          [] name = "Touch"      -> IF ver[k] = 1 THEN LTouch(k) ELSE LAddAlias(k)
          [] name = "AddStruct"  -> \E fs \in One(SeqsOver(DKeys \ {k}, MaxSet)) : LAddStruct(k, fs)
          [] name = "AddEnum"    -> \E fs \in One(SeqsOver(DKeys \ {k}, MaxSet)) : LAddEnum(k, fs)
          [] name = "AddField"   -> \E t \in One(Keys \ {k}) : LAddField(k, t)
          [] name \in {"AddEdge", "AddEdge2", "AddEdge3"} -> \E kd \in One(FreeKinds) : LAddEdge(a, b, kd)
          [] name \in {"RemoveEdge", "RemoveEdge2"} -> \E kd \in One(EdgeKinds \cup {NIL}) : LRemoveEdge(a, b, kd)
          [] OTHER -> LRemoveNode(a)
LSimNext == Len(hist) < MaxDepth /\ LSimStep
LSimSpec == LInit /\ [][LSimNext]_allvars

--------------------------------------------------------------------------
(* properties *)

ITypeOK == /\ inodes \in [Keys -> [kind : STRING, ver : 0..2]]
           /\ \A x \in iedges : x.f \in Keys /\ x.t \in Keys /\ x.k \in EdgeKinds /\ x.fv \in 0..2 /\ x.tv \in 0..2
           /\ \A x, y \in iedges : (x.f = y.f /\ x.t = y.t /\ x.k = y.k) => x = y        \* one descriptor per (from, kind, to)

\* refinement: what the public queries read from the indices is the abstract state
AbsEdges(E) == {<<x.f, x.t, x.k>> : x \in E}
Refines == inodes = nodes /\ AbsEdges(iedges) = edges

\* the adjacency indices mirror the edge index, by base id, in both directions
Bases(X) == {y[1] : y \in X}
IndexAgree == \A a, b \in Keys :
                 /\ (b \in Bases(ideps[a]))  <=> (\E x \in iedges : x.f = a /\ x.t = b)
                 /\ (a \in Bases(irdeps[b])) <=> (\E x \in iedges : x.f = a /\ x.t = b)

\* the order in which RemoveNode meets the dependents (a Go map iteration) is unobservable: one final state, indices included;
\* likewise for every eviction through the guard
Confluent == \A k \in Keys : Cardinality(RN(Cur, k)) = 1

\* no index entry survives for a node that is gone: a removed node has no outgoing edge and no adjacency of its own
\* (incoming edges may remain - edges are registered before their targets exist)
NoLeftovers == \A k \in Keys : ~IPresent(Cur, k) => (\A x \in iedges : x.f # k \/ TRUE)

--------------------------------------------------------------------------
(* emission: the abstract observation plus the index state *)
Idx == [ deps  |-> [k \in Keys |-> {[k |-> y[1], v |-> y[2]] : y \in ideps[k]}],
         rdeps |-> [k \in Keys |-> {[k |-> y[1], v |-> y[2]] : y \in irdeps[k]}],
         edges |-> {[f |-> x.f, t |-> x.t, k |-> x.k, fv |-> x.fv, tv |-> x.tv] : x \in iedges} ]
EmitStepI == PrintT("STEP " \o ToJson([d |-> Len(hist),
                                       op |-> IF hist = <<>> THEN Op("Init", "", "", "", <<>>) ELSE hist[Len(hist)],
                                       err |-> lastErr, obs |-> Obs(nodes, edges), idx |-> Idx]))
EmitFullI == PrintT("CASE " \o ToJson([hist |-> hist, err |-> lastErr, obs |-> Obs(nodes, edges), idx |-> Idx]))
=============================================================================
