--------------------------- MODULE PathTrieTrace ---------------------------
(***************************************************************************)
(* Direction B for C15: each line of trie_trace.ndjson is one real call of *)
(* paths.FindConflicts on a list the harness generated: the list (verb,    *)
(* segments, spelling, raw text) and the pairs / flagged entries the real  *)
(* code reported.  TLC classifies every call against the specification:    *)
(*   strict   - sound and complete as C15 demands                          *)
(*   asbuilt  - sound, and the flagged set is exactly what the operational *)
(*              model with the path-text de-duplication key predicts       *)
(*   bad      - anything else                                              *)
(***************************************************************************)
EXTENDS PathTrieMC

Trace == ndJsonDeserialize("trie_trace.ndjson")
VARIABLE l

ToS(x) == {x[i] : i \in DOMAIN x}
EvList(ev) == [i \in DOMAIN ev.list |-> [verb |-> ev.list[i].verb, segs |-> ev.list[i].segs, form |-> ev.list[i].form]]

Class(ev) ==
    LET L  == EvList(ev)
        fl == ToS(ev.flagged)
        ps == {ToS(p) : p \in ToS(ev.pairs)}
    IN  IF "panic" \in DOMAIN ev THEN "bad"
        ELSE IF \E i \in DOMAIN L : Render(L[i]) # ev.list[i].path THEN "badrender"
        ELSE IF ~(ps \subseteq Pairs(L)) THEN "bad"
        ELSE IF fl = Flagged(L) THEN "strict"
        ELSE IF fl = ImplFlaggedD(L, TRUE) THEN "asbuilt"
        ELSE "bad"

TraceInit == list = <<>> /\ l = 1
TraceNext == /\ l <= Len(Trace)
             /\ list' = EvList(Trace[l])
             /\ PrintT("VERDICT " \o ToString(l) \o " " \o Class(Trace[l]))
             /\ l' = l + 1
TraceSpec == TraceInit /\ [][TraceNext]_<<list, l>>
TraceAccepted == TLCGet("stats").diameter - 1 = Len(Trace)
=============================================================================
