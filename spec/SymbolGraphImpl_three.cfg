SPECIFICATION LSpec
CONSTANTS
  DKeys = {"k1","k2","k3"}
  UKeys = {"string"}
  FreeKinds = {"ty"}
  MaxDepth = 4
  DropAdjacencyAlways = FALSE
  MaxSet = 2
VIEW iview
INVARIANTS ITypeOK Refines IndexAgree Confluent
CHECK_DEADLOCK FALSE
