SPECIFICATION Spec
CONSTANTS
  MaxEdits = 9
  Editable <- MC_OptFields
  UseBad = FALSE
  UseGood = TRUE
  AllowedTokens <- MC_OptTokens
  StaleChoices <- MC_No
  ChmodExisting = TRUE
  KindLabel = "optional"
INVARIANTS TypeOK BaseIsValid C20_RejectedIsFinal C20_OnlyValidProceeds C20_Honoured Emit
PROPERTIES C20_ConfigFirst
CHECK_DEADLOCK FALSE
