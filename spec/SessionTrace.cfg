SPECIFICATION TraceSpec
CONSTANTS
  MaxLen = 1000000
  GraphIdempotent = TRUE
  CacheTransparent = TRUE
  SerialsMemoised = TRUE
  ScopeFixed = TRUE
INVARIANTS C19_FlatStable C19_GraphStable C19_SerialsStable C19_DerivedStable
POSTCONDITION TraceAccepted
CHECK_DEADLOCK FALSE
