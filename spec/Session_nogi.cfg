SPECIFICATION Spec
CONSTANTS
  MaxLen = 4
  EmitFrom = 100
  GraphIdempotent = FALSE
  CacheTransparent = TRUE
  SerialsMemoised = TRUE
  ScopeFixed = TRUE
  TouchInvisible = TRUE
INVARIANTS C19_GraphStable
CHECK_DEADLOCK FALSE
