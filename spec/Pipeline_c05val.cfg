SPECIFICATION Spec
CONSTANTS
  CfgChoices <- CfgsC05val
  CtrlChoices <- CtrlsC06
  MethodChoices <- MethodsC05val
  TypeChoices <- StdTypes
  MaxCtrls = 1
  MaxMethods = 1
  SortBeforeReduce = TRUE
INVARIANTS EmitCase
CHECK_DEADLOCK FALSE
