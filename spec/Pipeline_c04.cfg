SPECIFICATION Spec
CONSTANTS
  CfgChoices <- CfgsC04
  CtrlChoices <- CtrlsC04
  MethodChoices <- MethodsC04
  TypeChoices <- NoTypes
  MaxCtrls = 1
  MaxMethods = 1
  SortBeforeReduce = TRUE
INVARIANTS EmitCase C14_ExitSane C02_DocSubsetServed C01_SpecIsDocumented C10_AcceptIffWellLinked C13_Deterministic
PROPERTIES C08_ValidateFirst C10_NoOutputOnError C20_ConfigFirst
CHECK_DEADLOCK FALSE
