--------------------------- MODULE SymbolGraph ---------------------------
(***************************************************************************)
(* Abstract model of graphs/symboldg.SymbolGraph (property C17).           *)
(*                                                                         *)
(* The state is the "plain set-of-nodes / set-of-edges model" the property *)
(* speaks about; every public mutator of the Go type is one action.  The   *)
(* derived operators (Out, In, Children, Parents, Descendants, ByKind) are  *)
(* the answers the public query interface must give.  `Obs` packs them     *)
(* into one record; the conformance harness projects the real graph into   *)
(* the same record after every operation and both directions (replay of    *)
(* TLC behaviours, validation of recorded traces) compare on it.           *)
(*                                                                         *)
(* Keys: DKeys are declared symbols (AST node + file version), UKeys are   *)
(* universe builtins (no version).  `ver[k]` is the version of the file    *)
(* that declares k as the analysis currently sees it; Touch(k) is the      *)
(* environment editing that file.  All operations address k at ver[k].     *)
(***************************************************************************)
EXTENDS Naturals, Sequences, FiniteSets, TLC, Json

CONSTANTS DKeys,        \* declared keys, e.g. {"k1","k2","k3"}
          UKeys,        \* universe keys, subset of {"string","int","error"}
          FreeKinds,    \* edge kinds used by the free AddEdge/RemoveEdge actions
          MaxDepth,     \* bound on history length (exhaustive configs)
          MaxSet        \* bound on |fields| / |values| given to AddStruct/AddEnum

VARIABLES nodes,   \* [Keys -> [kind : STRING, ver : 0..2]]  kind = "none" <=> absent
          edges,   \* SUBSET (Keys \X Keys \X EdgeKinds), identity = <<from,to,kind>>
          ver,     \* [DKeys -> 1..2]
          hist,    \* sequence of operation records (observation only; hidden by VIEW)
          lastErr  \* did the last operation report an error (observation only)

vars == <<nodes, edges, ver, hist, lastErr>>
view == <<nodes, edges, ver, Len(hist)>>

Keys      == DKeys \cup UKeys
EdgeKinds == FreeKinds \cup {"fld", "val", "ty", "ref"}
NIL       == "nil"
Absent    == [kind |-> "none", ver |-> 0]

Present(N, k) == N[k].kind # "none"
UKind(u)  == IF u = "error" THEN "Special" ELSE "Builtin"

--------------------------------------------------------------------------
(* Derived views: what the query interface must answer.                  *)

Out(E, k)      == {e \in E : e[1] = k}
In(E, k)       == {e \in E : e[2] = k}
KindOK(e, kf)  == kf = NIL \/ e[3] = kf

\* Children/Parents only ever return nodes that exist.
Children(N, E, k, kf) == {e[2] : e \in {x \in Out(E, k) : KindOK(x, kf) /\ Present(N, x[2])}}
Parents(N, E, k, kf)  == {e[1] : e \in {x \in In(E, k)  : KindOK(x, kf) /\ Present(N, x[1])}}

RECURSIVE Reach(_, _, _, _, _)
Reach(N, E, frontier, seen, kf) ==
    LET next == UNION {Children(N, E, f, kf) : f \in frontier} \ seen
    IN  IF next = {} THEN seen ELSE Reach(N, E, next, seen \cup next, kf)
Descendants(N, E, k, kf) == Reach(N, E, {k}, {}, kf)

ByKind(N, kind) == {k \in Keys : N[k].kind = kind}

--------------------------------------------------------------------------
(* RemoveNode: the node, every edge touching a removed node, and exactly  *)
(* the dependants left without a dependency on a remaining node (least    *)
(* fix-point).                                                            *)

RECURSIVE Lfp(_, _, _)
Lfp(N, E, R) ==
    LET add == {d \in Keys \ R :
                   /\ Present(N, d)
                   /\ \E e \in E : e[1] = d /\ e[2] \in R
                   /\ \A e \in E : (e[1] = d /\ Present(N, e[2])) => e[2] \in R}
    IN  IF add = {} THEN R ELSE Lfp(N, E, R \cup add)

Removed(N, E, k)   == IF Present(N, k) THEN Lfp(N, E, {k}) ELSE {}
NodesMinus(N, R)   == [x \in Keys |-> IF x \in R THEN Absent ELSE N[x]]
EdgesMinus(E, R)   == {e \in E : e[1] \notin R /\ e[2] \notin R}

\* idempotencyGuard: an existing node of another file version is evicted
\* (with its cascade) before the new one is inserted; same version => keep.
Stale(N, k)        == k \in DKeys /\ Present(N, k) /\ N[k].ver # ver[k]
GuardN(N, E, k)    == IF Stale(N, k) THEN NodesMinus(N, Removed(N, E, k)) ELSE N
GuardE(N, E, k)    == IF Stale(N, k) THEN EdgesMinus(E, Removed(N, E, k)) ELSE E
\* insert k with `kind` unless a same-version node is already there
Put(N, k, kind)    == IF Present(N, k) THEN N
                      ELSE [N EXCEPT ![k] = [kind |-> kind, ver |-> IF k \in DKeys THEN ver[k] ELSE 0]]

--------------------------------------------------------------------------
Op(name, k, to, kind, set) == [op |-> name, k |-> k, to |-> to, kind |-> kind, set |-> set]

Log(o, err) == /\ hist' = Append(hist, o)
               /\ lastErr' = err

AddBuiltin(u) ==
    /\ u \in UKeys
    /\ nodes' = Put(nodes, u, UKind(u))
    /\ UNCHANGED <<edges, ver>>
    /\ Log(Op(IF u = "error" THEN "AddSpecial" ELSE "AddPrimitive", u, "", "", <<>>), FALSE)

AddPlain(name, kind, k) ==          \* AddAlias / AddConst: node only
    /\ k \in DKeys
    /\ nodes' = Put(GuardN(nodes, edges, k), k, kind)
    /\ edges' = GuardE(nodes, edges, k)
    /\ UNCHANGED ver
    /\ Log(Op(name, k, "", "", <<>>), FALSE)

AddAlias(k) == AddPlain("AddAlias", "Alias", k)
AddConst(k) == AddPlain("AddConst", "Constant", k)

\* fs: sequence of distinct field keys (edges are registered even if the field nodes do not exist yet)
AddStruct(k, fs) ==
    /\ k \in DKeys
    /\ nodes' = Put(GuardN(nodes, edges, k), k, "Struct")
    /\ edges' = GuardE(nodes, edges, k) \cup {<<k, fs[i], "fld">> : i \in DOMAIN fs}
    /\ UNCHANGED ver
    /\ Log(Op("AddStruct", k, "", "", fs), FALSE)

\* AddField(k, t): node k, then a "ty" edge to its type.  A universe type is created on demand,
\* a declared type must already be present, otherwise the call reports an error (the field node stays).
AddField(k, t) ==
    /\ k \in DKeys /\ t \in Keys
    /\ LET N1 == Put(GuardN(nodes, edges, k), k, "Field")
           E1 == GuardE(nodes, edges, k)
           ok == t \in UKeys \/ Present(N1, t)
       IN  /\ nodes' = IF t \in UKeys THEN Put(N1, t, UKind(t)) ELSE N1
           /\ edges' = IF ok THEN E1 \cup {<<k, t, "ty">>} ELSE E1
           /\ Log(Op("AddField", k, t, "", <<>>), ~ok)
    /\ UNCHANGED ver

\* AddEnum(k, vs): enum node, the underlying primitive ("string") on demand, then per value (in order)
\* a constant node, an edge enum -val-> value and an edge value -ref-> primitive.
RECURSIVE EnumValues(_, _, _, _, _)
EnumValues(N, E, k, vs, i) ==
    IF i > Len(vs) THEN <<N, E>>
    ELSE LET v  == vs[i]
             N1 == Put(GuardN(N, E, v), v, "Constant")
             E1 == GuardE(N, E, v) \cup {<<k, v, "val">>, <<v, "string", "ref">>}
         IN  EnumValues(N1, E1, k, vs, i + 1)

AddEnum(k, vs) ==
    /\ k \in DKeys /\ "string" \in UKeys
    /\ LET N1 == Put(Put(GuardN(nodes, edges, k), k, "Enum"), "string", "Builtin")
           E1 == GuardE(nodes, edges, k)
           r  == EnumValues(N1, E1, k, vs, 1)
       IN  nodes' = r[1] /\ edges' = r[2]
    /\ UNCHANGED ver
    /\ Log(Op("AddEnum", k, "", "", vs), FALSE)

AddEdge(a, b, kind) ==
    /\ a \in Keys /\ b \in Keys /\ kind \in FreeKinds
    /\ edges' = edges \cup {<<a, b, kind>>}
    /\ UNCHANGED <<nodes, ver>>
    /\ Log(Op("AddEdge", a, b, kind, <<>>), FALSE)

RemoveEdge(a, b, kind) ==
    /\ a \in Keys /\ b \in Keys /\ kind \in EdgeKinds \cup {NIL}
    /\ edges' = {e \in edges : ~(e[1] = a /\ e[2] = b /\ KindOK(e, kind))}
    /\ UNCHANGED <<nodes, ver>>
    /\ Log(Op("RemoveEdge", a, b, kind, <<>>), FALSE)

RemoveNode(k) ==
    /\ k \in Keys
    /\ LET R == Removed(nodes, edges, k)
       IN  nodes' = NodesMinus(nodes, R) /\ edges' = EdgesMinus(edges, R)
    /\ UNCHANGED ver
    /\ Log(Op("RemoveNode", k, "", "", <<>>), FALSE)

Touch(k) ==
    /\ k \in DKeys /\ ver[k] = 1
    /\ ver' = [ver EXCEPT ![k] = 2]
    /\ UNCHANGED <<nodes, edges>>
    /\ Log(Op("Touch", k, "", "", <<>>), FALSE)

--------------------------------------------------------------------------
SeqsOver(S, n) == UNION {{s \in [1..m -> S] : \A i, j \in 1..m : i # j => s[i] # s[j]} : m \in 0..n}

Init == /\ nodes = [k \in Keys |-> Absent]
        /\ edges = {}
        /\ ver = [k \in DKeys |-> 1]
        /\ hist = <<>>
        /\ lastErr = FALSE

Step == \/ \E u \in UKeys : AddBuiltin(u)
        \/ \E k \in DKeys : AddAlias(k) \/ AddConst(k) \/ Touch(k)
        \/ \E k \in DKeys : \E fs \in SeqsOver(DKeys \ {k}, MaxSet) : AddStruct(k, fs) \/ AddEnum(k, fs)
        \/ \E k \in DKeys : \E t \in Keys \ {k} : AddField(k, t)
        \/ \E a, b \in Keys, kind \in FreeKinds : AddEdge(a, b, kind)
        \/ \E a, b \in Keys, kind \in EdgeKinds \cup {NIL} : RemoveEdge(a, b, kind)
        \/ \E k \in Keys : RemoveNode(k)

Next == Len(hist) < MaxDepth /\ Step

Spec == Init /\ [][Next]_vars

\* Random walks for `tlc -simulate`: exactly one successor per state (TLC's simulator evaluates invariants on every
\* generated successor, so emission from an invariant is only in step with the walk when there is a single one).
One(S) == {RandomElement(S)}     \* bound through \E so that the random pick is evaluated exactly once
SimStep ==
    \E name \in One({"AddBuiltin", "AddAlias", "AddConst", "Touch", "AddStruct", "AddEnum", "AddField",
                      "AddEdge", "AddEdge2", "AddEdge3", "RemoveEdge", "RemoveEdge2", "RemoveNode", "RemoveNode2"}) :
    \E k \in One(DKeys) : \E a \in One(Keys) : \E b \in One(Keys) :
        CASE name = "AddBuiltin" -> \E u \in One(UKeys) : AddBuiltin(u)
          [] name = "AddAlias"   -> AddAlias(k)
          [] name = "AddConst"   -> AddConst(k)
          [] name = "Touch"      -> IF ver[k] = 1 THEN Touch(k) ELSE AddAlias(k)
          [] name = "AddStruct"  -> \E fs \in One(SeqsOver(DKeys \ {k}, MaxSet)) : AddStruct(k, fs)
          [] name = "AddEnum"    -> \E fs \in One(SeqsOver(DKeys \ {k}, MaxSet)) : AddEnum(k, fs)
          [] name = "AddField"   -> \E t \in One(Keys \ {k}) : AddField(k, t)
          [] name \in {"AddEdge", "AddEdge2", "AddEdge3"} -> \E kd \in One(FreeKinds) : AddEdge(a, b, kd)
          [] name \in {"RemoveEdge", "RemoveEdge2"} -> \E kd \in One(EdgeKinds \cup {NIL}) : RemoveEdge(a, b, kd)
          [] OTHER -> RemoveNode(a)
SimNext == Len(hist) < MaxDepth /\ SimStep
SimSpec == Init /\ [][SimNext]_vars

--------------------------------------------------------------------------
(* The observation record.  Everything in it is a set (or a function to   *)
(* sets) so that the harness can canonicalise by sorting.                 *)

ERec(e) == [f |-> e[1], t |-> e[2], k |-> e[3]]
KF      == EdgeKinds \cup {NIL}

Obs(N, E) ==
    [ nodes    |-> [k \in Keys |-> N[k]],
      out      |-> [k \in Keys |-> {ERec(e) : e \in Out(E, k)}],
      in       |-> [k \in Keys |-> {ERec(e) : e \in In(E, k)}],
      children |-> [k \in {x \in Keys : Present(N, x)} |-> [kf \in KF |-> Children(N, E, k, kf)]],
      parents  |-> [k \in {x \in Keys : Present(N, x)} |-> [kf \in KF |-> Parents(N, E, k, kf)]],
      desc     |-> [k \in {x \in Keys : Present(N, x)} |-> [kf \in KF |-> Descendants(N, E, k, kf)]],
      bykind   |-> [kd \in {"Struct", "Field", "Enum", "Alias", "Constant", "Builtin", "Special"} |-> ByKind(N, kd)] ]

--------------------------------------------------------------------------
(* Properties (C17), design level.                                        *)

TypeOK == /\ nodes \in [Keys -> [kind : STRING, ver : 0..2]]
          /\ edges \subseteq (Keys \X Keys \X EdgeKinds)
          /\ ver \in [DKeys -> 1..2]

\* an edge is outgoing of its source iff incoming of its target
C17_InOutAgree == \A e \in edges : e \in Out(edges, e[1]) /\ e \in In(edges, e[2])
C17_ViewsAgree == \A k \in Keys : \A kf \in KF :
                      /\ \A c \in Children(nodes, edges, k, kf) : Present(nodes, k) => k \in Parents(nodes, edges, c, kf)
                      /\ \A p \in Parents(nodes, edges, k, kf)  : Present(nodes, k) => k \in Children(nodes, edges, p, kf)
                      /\ Children(nodes, edges, k, kf) \subseteq Descendants(nodes, edges, k, kf)
\* a node never carries a version newer than its file
C17_VersionSane == \A k \in DKeys : Present(nodes, k) => nodes[k].ver <= ver[k]

\* re-inserting an existing node or edge changes nothing
IsReAdd(o) == \/ o.op \in {"AddAlias", "AddConst", "AddPrimitive", "AddSpecial"} /\ Present(nodes, o.k) /\ ~Stale(nodes, o.k)
              \/ o.op = "AddEdge" /\ <<o.k, o.to, o.kind>> \in edges
              \/ o.op = "AddStruct" /\ Present(nodes, o.k) /\ ~Stale(nodes, o.k)
                   /\ \A i \in DOMAIN o.set : <<o.k, o.set[i], "fld">> \in edges
C17_Idempotent == [][(hist' # hist /\ IsReAdd(hist'[Len(hist')])) => (nodes' = nodes /\ edges' = edges)]_vars

\* removal: the node is gone, no edge touches a removed node, survivors keep their edges among themselves,
\* a removed dependant had no dependency on a survivor, and a surviving dependant of a removed node still has one.
C17_Removal ==
    [][ (hist' # hist /\ hist'[Len(hist')].op = "RemoveNode") =>
          LET k == hist'[Len(hist')].k
              R == {x \in Keys : Present(nodes, x) /\ ~Present(nodes', x)}
          IN  /\ ~Present(nodes', k)
              /\ Present(nodes, k) => k \in R
              /\ ~Present(nodes, k) => (nodes' = nodes /\ edges' = edges)
              /\ edges' = {e \in edges : e[1] \notin R /\ e[2] \notin R}
              /\ \A d \in R \ {k} : /\ \E e \in edges : e[1] = d /\ e[2] \in R
                                    /\ \A e \in edges : (e[1] = d /\ Present(nodes, e[2])) => e[2] \in R
              /\ \A d \in Keys \ R : (Present(nodes, d) /\ \E e \in edges : e[1] = d /\ e[2] \in R)
                                       => \E e \in edges : e[1] = d /\ Present(nodes, e[2]) /\ e[2] \notin R
      ]_vars

\* a node re-added under a newer file version replaces the stale one
C17_Replace ==
    [][ (hist' # hist /\ hist'[Len(hist')].op \in {"AddAlias", "AddConst", "AddStruct", "AddField"}) =>
          LET k == hist'[Len(hist')].k IN Present(nodes', k) /\ nodes'[k].ver = ver[k] ]_vars

--------------------------------------------------------------------------
(* Emission for direction A (TLC behaviours replayed into the real graph) *)

EmitFull == PrintT("CASE " \o ToJson([hist |-> hist, err |-> lastErr, obs |-> Obs(nodes, edges)]))
EmitStep == PrintT("STEP " \o ToJson([d |-> Len(hist),
                                      op |-> IF hist = <<>> THEN Op("Init", "", "", "", <<>>) ELSE hist[Len(hist)],
                                      err |-> lastErr, obs |-> Obs(nodes, edges)]))
=============================================================================
