--------------------------- MODULE PipelineTrace ---------------------------
(***************************************************************************)
(* Direction B for the pipeline family: the hook trace of every real CLI   *)
(* run (events emitted after each critical section, plus the harness'      *)
(* measurements Run / Exit / FsDelta) is replayed against the session      *)
(* state machine of Pipeline.tla, reduced to what the events carry.  Many  *)
(* runs are concatenated; "Run" starts a new session.                      *)
(*                                                                         *)
(* Each rule is a property of the specification:                           *)
(*   C20  no source is touched before the configuration was accepted, a    *)
(*        rejected configuration changes nothing on disk;                  *)
(*   C10  once error diagnostics exist no artifact is rendered or written  *)
(*        and the command fails;                                           *)
(*   C08  a spec is written only after the 3.0 document validated, and for *)
(*        3.1 after the 3.1 document validated as well; 3.1 is built only  *)
(*        after 3.0 validated;                                             *)
(*   C14  every run ends in Exit(0) with its artifacts written or Exit(1)  *)
(*        with a message; never a crash, a hang or another status.         *)
(* A violated rule does not stop validation: TLC prints "VIOL <prop> <l>"  *)
(* and goes on, so that the rest of the trace is still examined.           *)
(***************************************************************************)
EXTENDS Naturals, Sequences, TLC, Json

Trace == ndJsonDeserialize("pipeline_trace.ndjson")

VARIABLES l, lenient, cmd, version, cfg, loaded, errs, failedDiags, reduced, rendered, wroteRoutes, wroteSpec, v30, v31, exited
vars == <<l, lenient, cmd, version, cfg, loaded, errs, failedDiags, reduced, rendered, wroteRoutes, wroteSpec, v30, v31, exited>>

Has(ev, f) == f \in DOMAIN ev
Viol(prop, cond) == IF cond THEN TRUE ELSE PrintT("VIOL " \o prop \o " " \o ToString(l) \o " " \o Trace[l].event)

\* lenient runs come from the repository's own tests (a test process may build a pipeline without reading a configuration file and
\* never "exits"): the configuration-first rule then only applies once a configuration file was read
Reset(ev) == /\ lenient' = Has(ev, "lenient") /\ cmd' = ev.cmd /\ version' = ev.version /\ cfg' = "none" /\ loaded' = FALSE /\ errs' = 0 /\ failedDiags' = FALSE
             /\ reduced' = FALSE /\ rendered' = FALSE /\ wroteRoutes' = FALSE /\ wroteSpec' = FALSE /\ v30' = FALSE /\ v31' = FALSE /\ exited' = FALSE

Step(ev) ==
    CASE ev.event = "Run" -> Viol("C14", l = 1 \/ exited \/ lenient \/ Has(ev, "lenient")) /\ Reset(ev)
      [] ev.event = "ConfigRead" -> cfg' = "read" /\ UNCHANGED <<lenient, cmd, version, loaded, errs, failedDiags, reduced, rendered, wroteRoutes, wroteSpec, v30, v31, exited>>
      [] ev.event = "ConfigRejected" -> cfg' = "rejected" /\ UNCHANGED <<lenient, cmd, version, loaded, errs, failedDiags, reduced, rendered, wroteRoutes, wroteSpec, v30, v31, exited>>
      [] ev.event = "ConfigAccepted" -> cfg' = "accepted" /\ UNCHANGED <<lenient, cmd, version, loaded, errs, failedDiags, reduced, rendered, wroteRoutes, wroteSpec, v30, v31, exited>>
      [] ev.event = "PackagesLoad" -> Viol("C20", cfg = "accepted" \/ (lenient /\ cfg = "none")) /\ loaded' = TRUE
                                      /\ UNCHANGED <<lenient, cmd, version, cfg, errs, failedDiags, reduced, rendered, wroteRoutes, wroteSpec, v30, v31, exited>>
      [] ev.event \in {"GraphGenerated", "Permute"} -> Viol("C20", cfg = "accepted" \/ (lenient /\ cfg = "none")) /\ UNCHANGED <<lenient, cmd, version, cfg, loaded, errs, failedDiags, reduced, rendered, wroteRoutes, wroteSpec, v30, v31, exited>>
      [] ev.event = "Validated" -> errs' = ev.errorEntities /\ UNCHANGED <<lenient, cmd, version, cfg, loaded, failedDiags, reduced, rendered, wroteRoutes, wroteSpec, v30, v31, exited>>
      [] ev.event = "RunFailedOnDiagnostics" -> Viol("C10", errs > 0) /\ failedDiags' = TRUE
                                      /\ UNCHANGED <<lenient, cmd, version, cfg, loaded, errs, reduced, rendered, wroteRoutes, wroteSpec, v30, v31, exited>>
      [] ev.event = "Reduced" -> Viol("C10", errs = 0 /\ ~failedDiags) /\ reduced' = ev.ok
                                      /\ UNCHANGED <<lenient, cmd, version, cfg, loaded, errs, failedDiags, rendered, wroteRoutes, wroteSpec, v30, v31, exited>>
      [] ev.event = "RoutesRendered" -> Viol("C10", reduced /\ errs = 0) /\ rendered' = TRUE
                                      /\ UNCHANGED <<lenient, cmd, version, cfg, loaded, errs, failedDiags, reduced, wroteRoutes, wroteSpec, v30, v31, exited>>
      [] ev.event = "RoutesFormatted" -> UNCHANGED <<lenient, cmd, version, cfg, loaded, errs, failedDiags, reduced, rendered, wroteRoutes, wroteSpec, v30, v31, exited>>
      [] ev.event = "RoutesWritten" -> Viol("C10", reduced /\ errs = 0 /\ rendered) /\ wroteRoutes' = TRUE
                                      /\ UNCHANGED <<lenient, cmd, version, cfg, loaded, errs, failedDiags, reduced, rendered, wroteSpec, v30, v31, exited>>
      [] ev.event = "Spec30Built" -> Viol("C10", reduced /\ errs = 0) /\ v30' = FALSE /\ v31' = FALSE
                                      /\ UNCHANGED <<lenient, cmd, version, cfg, loaded, errs, failedDiags, reduced, rendered, wroteRoutes, wroteSpec, exited>>
      [] ev.event = "Spec30Validated" -> v30' = ev.ok /\ UNCHANGED <<lenient, cmd, version, cfg, loaded, errs, failedDiags, reduced, rendered, wroteRoutes, wroteSpec, v31, exited>>
      [] ev.event = "Spec31Built" -> Viol("C08", v30) /\ UNCHANGED <<lenient, cmd, version, cfg, loaded, errs, failedDiags, reduced, rendered, wroteRoutes, wroteSpec, v30, v31, exited>>
      [] ev.event = "Spec31Validated" -> v31' = ev.ok /\ UNCHANGED <<lenient, cmd, version, cfg, loaded, errs, failedDiags, reduced, rendered, wroteRoutes, wroteSpec, v30, exited>>
      [] ev.event = "SpecWritten" -> Viol("C08", v30 /\ (ev.version = "3.1.0" => v31)) /\ Viol("C10", errs = 0 /\ ~failedDiags) /\ wroteSpec' = TRUE
                                      /\ UNCHANGED <<lenient, cmd, version, cfg, loaded, errs, failedDiags, reduced, rendered, wroteRoutes, v30, v31, exited>>
      [] ev.event = "FsDelta" -> /\ Viol("C20", cfg = "accepted" \/ ev.changed = 0)
                                 /\ Viol("C10", ~failedDiags \/ ev.changed = 0)
                                 /\ Viol("C08", ev.specChanged = wroteSpec)
                                 /\ UNCHANGED <<lenient, cmd, version, cfg, loaded, errs, failedDiags, reduced, rendered, wroteRoutes, wroteSpec, v30, v31, exited>>
      [] ev.event = "Exit" -> /\ Viol("C14", ~ev.panicked /\ ~ev.timedOut /\ ev.code \in {0, 1})
                              /\ Viol("C14", ev.code = 1 => ~ev.msgEmpty)
                              /\ Viol("C10", failedDiags => ev.code = 1)
                              /\ Viol("C20", cfg = "rejected" => ev.code = 1)
                              /\ Viol("C14", ev.code = 0 => ((cmd = "generate spec-and-routes" => wroteRoutes /\ wroteSpec)
                                                              /\ (cmd = "generate spec" => wroteSpec) /\ (cmd = "generate routes" => wroteRoutes)))
                              /\ exited' = TRUE
                              /\ UNCHANGED <<lenient, cmd, version, cfg, loaded, errs, failedDiags, reduced, rendered, wroteRoutes, wroteSpec, v30, v31>>
      [] OTHER -> PrintT("VIOL TRACE " \o ToString(l) \o " unknown event") /\ UNCHANGED <<lenient, cmd, version, cfg, loaded, errs, failedDiags, reduced, rendered, wroteRoutes, wroteSpec, v30, v31, exited>>

TraceInit == /\ l = 1 /\ lenient = FALSE /\ cmd = "" /\ version = "" /\ cfg = "none" /\ loaded = FALSE /\ errs = 0 /\ failedDiags = FALSE /\ reduced = FALSE
             /\ rendered = FALSE /\ wroteRoutes = FALSE /\ wroteSpec = FALSE /\ v30 = FALSE /\ v31 = FALSE /\ exited = FALSE
TraceNext == l <= Len(Trace) /\ Step(Trace[l]) /\ l' = l + 1
TraceSpec == TraceInit /\ [][TraceNext]_vars
TraceAccepted == TLCGet("stats").diameter - 1 = Len(Trace)
=============================================================================
