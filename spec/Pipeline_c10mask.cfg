SPECIFICATION Spec
CONSTANTS
  CfgChoices <- CfgsC10
  CtrlChoices <- CtrlsC10
  MethodChoices <- MethodsC10mask
  TypeChoices <- StdTypes
  MaxCtrls = 1
  MaxMethods = 1
  SortBeforeReduce = TRUE
INVARIANTS EmitCase
CHECK_DEADLOCK FALSE
