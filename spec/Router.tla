------------------------------- MODULE Router -------------------------------
(***************************************************************************)
(* The handler every generated router runs for a request, engine-free on   *)
(* purpose (that there is no engine variable IS property C12):             *)
(*                                                                         *)
(*   Dispatch -> AuthCheck(alt i)* -> (Refuse | ParseParam(k)* ->          *)
(*                                      (Reject422 | Invoke -> Reply))     *)
(*                                                                         *)
(* handler = [alts   : Seq([scheme, scopes]),          effective security  *)
(*            params : Seq([name, in, wire, type, required, validate]),    *)
(*            returnsValue : BOOLEAN]                                      *)
(* req     = [toks : Seq(token id | "ABSENT")]   one entry per parameter   *)
(* script  = Seq(BOOLEAN)    the callback's answers, in call order         *)
(*           (beyond its end the callback approves)                        *)
(*                                                                         *)
(* Step is a function on machine states; the action Next applies it once,  *)
(* RunOf iterates it to the terminal state.  The trace specification       *)
(* (RouterTrace.tla) compares each recorded execution of the real routers  *)
(* with RunOf.                                                             *)
(*                                                                         *)
(* Value tokens: the table Tokens pairs, per Go type, a raw wire value with *)
(* whether it converts (fits) and the canonical JSON of the converted      *)
(* value.  It is data, reviewed against strconv's semantics (trusted).     *)
(***************************************************************************)
EXTENDS Naturals, Sequences, FiniteSets, TLC, Json

ABSENT == "ABSENT"

T(ty, id, raw, fits, canon) == [ty |-> ty, id |-> id, raw |-> raw, fits |-> fits, canon |-> canon]
Tokens == {
  T("string", "abc", <<"abc">>, TRUE, "\"abc\""), T("string", "empty", <<"">>, TRUE, "\"\""), T("string", "space", <<"a b">>, TRUE, "\"a b\""),
  T("string", "amp", <<"x&y=z">>, TRUE, "\"x&y=z\""), T("string", "plus", <<"a+b">>, TRUE, "\"a+b\""), T("string", "uni", <<"<U1>">>, TRUE, "\"<U1>\""),
  T("int", "seven", <<"7">>, TRUE, "7"), T("int", "zero", <<"0">>, TRUE, "0"), T("int", "neg", <<"-1">>, TRUE, "-1"),
  T("int", "max32", <<"2147483647">>, TRUE, "2147483647"), T("int", "over32", <<"2147483648">>, TRUE, "2147483648"),
  T("int", "max64", <<"9223372036854775807">>, TRUE, "9223372036854775807"), T("int", "over64", <<"9223372036854775808">>, FALSE, ""),
  T("int", "word", <<"abc">>, FALSE, ""), T("int", "frac", <<"1.5">>, FALSE, ""), T("int", "empty", <<"">>, FALSE, ""),
  T("uint", "seven", <<"7">>, TRUE, "7"), T("uint", "over32", <<"4294967296">>, TRUE, "4294967296"), T("uint", "neg", <<"-1">>, FALSE, ""),
  T("int8", "max", <<"127">>, TRUE, "127"), T("int8", "over", <<"128">>, FALSE, ""), T("int8", "min", <<"-128">>, TRUE, "-128"),
  T("bool", "true", <<"true">>, TRUE, "true"), T("bool", "false", <<"false">>, TRUE, "false"), T("bool", "yes", <<"yes">>, FALSE, ""),
  T("float32", "frac", <<"1.5">>, TRUE, "1.5"), T("float32", "max", <<"3.4028235e38">>, TRUE, "3.4028235e+38"), T("float32", "over", <<"1e39">>, FALSE, ""),
  T("float32", "negover", <<"-7.5e40">>, FALSE, ""), T("float32", "word", <<"abc">>, FALSE, ""),
  T("uint8", "max", <<"255">>, TRUE, "255"), T("uint8", "over", <<"256">>, FALSE, ""), T("uint8", "neg", <<"-1">>, FALSE, ""),
  T("int64", "max", <<"9223372036854775807">>, TRUE, "9223372036854775807"), T("int64", "over", <<"9223372036854775808">>, FALSE, ""),
  T("float64", "frac", <<"1.5">>, TRUE, "1.5"), T("float64", "over", <<"1e400">>, FALSE, ""), T("float64", "exp", <<"1e3">>, TRUE, "1000"), T("float64", "word", <<"abc">>, FALSE, ""),
  T("[]string", "two", <<"x", "y">>, TRUE, "[\"x\",\"y\"]"), T("[]string", "one", <<"x">>, TRUE, "[\"x\"]"),
  T("[]int", "two", <<"1", "2">>, TRUE, "[1,2]"), T("[]int", "bad", <<"1", "x">>, FALSE, ""),
  T("p1.Color", "red", <<"red">>, TRUE, "\"red\""), T("p1.Color", "violet", <<"violet">>, TRUE, "\"violet\""),   \* violet: not a member of Color
  T("p2.Level", "one", <<"1">>, TRUE, "1"), T("p2.Level", "seven", <<"7">>, TRUE, "7"), T("p2.Level", "word", <<"abc">>, FALSE, ""),        \* an int enum {1, 2}: 7 is not a member
  T("p2.Code", "abc", <<"abc">>, TRUE, "\"abc\""), T("p2.Code", "empty", <<"">>, TRUE, "\"\""),                                          \* a string alias
  T("[]p1.Color", "two", <<"red", "blue">>, TRUE, "[\"red\",\"blue\"]"), T("[]p1.Color", "zmixed", <<"red", "violet">>, TRUE, "[\"red\",\"violet\"]"),
  T("p1.Shade", "dark", <<"dark">>, TRUE, "\"dark\""), T("p1.Shade", "violet", <<"violet">>, TRUE, "\"violet\""),
  T("p2.Line", "full", <<"{\"sku\":\"abc\",\"level\":1,\"alias\":\"x\"}">>, TRUE, "{\"sku\":\"abc\",\"level\":1,\"alias\":\"x\"}"),
  T("p2.Line", "nosku", <<"{\"level\":1}">>, FALSE, ""), T("p2.Line", "longsku", <<"{\"sku\":\"abcdefghijk\",\"level\":1,\"alias\":\"\"}">>, FALSE, ""),   \* sku: required,min=1,max=10
  T("[]p2.Line", "one", <<"[{\"sku\":\"a\",\"level\":2,\"alias\":\"\"}]">>, TRUE, "[{\"sku\":\"a\",\"level\":2,\"alias\":\"\"}]"), T("[]p2.Line", "nosku", <<"[{\"level\":2}]">>, FALSE, ""),
  T("p1.Item", "full", <<"{\"name\":\"n\",\"count\":3}">>, TRUE, "{\"name\":\"n\",\"count\":3}"),
  T("p1.Item", "min", <<"{\"name\":\"n\"}">>, TRUE, "{\"name\":\"n\",\"count\":null}"),
  T("p1.Item", "noname", <<"{\"count\":3}">>, FALSE, ""), T("p1.Item", "badjson", <<"{\"name\":">>, FALSE, ""),
  T("[]p1.Item", "two", <<"[{\"name\":\"a\"},{\"name\":\"b\",\"count\":1}]">>, TRUE, "[{\"name\":\"a\",\"count\":null},{\"name\":\"b\",\"count\":1}]"),
  T("[]p1.Item", "noname", <<"[{\"count\":1}]">>, FALSE, "") }

BaseType(t) == IF Len(t) > 0 /\ SubSeq(t, 1, 1) = "*" THEN SubSeq(t, 2, Len(t)) ELSE t
TokOf(ty, id) == CHOOSE x \in Tokens : x.ty = BaseType(ty) /\ x.id = id
HasTok(ty, id) == \E x \in Tokens : x.ty = BaseType(ty) /\ x.id = id

\* refusal status the scripted callback answers with: depends on the position of the call, so "the last refusal" is observable
\* (sameErr: the callback answers every refusal with one shared error value of status 403 - a sentinel, as user code often does)
RefusalStatus(callIdx, sameErr) == IF sameErr THEN 403 ELSE IF callIdx % 2 = 1 THEN 401 ELSE 403

--------------------------------------------------------------------------
(* machine state *)
Start == [pc |-> "auth", alt |-> 1, calls |-> 0, k |-> 1, auth |-> <<>>, args |-> <<>>, lastStatus |-> 0, outcome |-> "running", status |-> 0, mw |-> <<>>]

\* User middlewares.  The application registers, per stage, a list of middlewares (here two each: <stage>#1, <stage>#2); the handler
\* runs the list of a stage in registration order and stops - writing nothing more itself - as soon as one answers "do not continue"
\* (the scripted one, opts.stopAt, which answers 418 itself).  Stages: onInput (a parameter is missing / ill-typed / fails its
\* validator, before the 422 is written), before (all parameters parsed, before the controller), onError (the controller returned an
\* error), onOutput (the returned value does not pass validateResponsePayload), after (success, before the reply is written).
\* Nothing runs before the authorization gate has approved, nor after a refusal.
StopAtOf(o) == IF "stopAt" \in DOMAIN o THEN o.stopAt ELSE ""
MwNames(stage) == <<stage \o "#1", stage \o "#2">>
\* the middlewares of a stage that run, and whether the operation continues after them
MwRun(stage, o) == IF MwNames(stage)[1] = StopAtOf(o) THEN <<MwNames(stage)[1]>> ELSE MwNames(stage)
MwStops(stage, o) == StopAtOf(o) \in {MwNames(stage)[1], MwNames(stage)[2]}
Stopped(s, stage, o) == [s EXCEPT !.pc = "done", !.outcome = "stopped", !.status = 418, !.mw = s.mw \o MwRun(stage, o)]

Decision(script, n) == IF n <= Len(script) THEN script[n] ELSE TRUE

\* Declared validators (go-playground tags) that the handler machine understands, as data: which tokens of which type pass.
\* A rule the table does not know leaves the verdict open ("?"): nothing is then expected of that request.
NonMembers == {<<"p1.Color", "violet">>, <<"p2.Level", "seven">>, <<"[]p1.Color", "zmixed">>, <<"p1.Shade", "violet">>}
RulePasses(rule, ty, tokid) ==
    CASE rule \in {"required", "omitempty", ""} -> "yes"
      [] rule = "oneof=abc a+b" /\ ty = "string" -> IF tokid \in {"abc", "plus"} THEN "yes" ELSE "no"
      [] rule = "gte=1" /\ ty \in {"int", "int64"} -> IF tokid \in {"zero", "neg"} THEN "no" ELSE "yes"
      [] rule = "max=3" /\ ty = "string" -> IF tokid \in {"abc", "space", "plus", "empty"} THEN "yes" ELSE IF tokid = "amp" THEN "no" ELSE "?"
      [] OTHER -> "?"
SplitRules(v) == LET RECURSIVE go(_, _) go(i, cur) == IF i > Len(v) THEN <<cur>>
                                                      ELSE IF SubSeq(v, i, i) = "," THEN <<cur>> \o go(i + 1, "") ELSE go(i + 1, cur \o SubSeq(v, i, i))
                 IN IF v = "" THEN <<>> ELSE go(1, "")
ValidatorVerdict(p, tokid) == LET rs == SplitRules(p.validate)
                                  vs == {RulePasses(rs[i], BaseType(p.type), tokid) : i \in DOMAIN rs}
                              IN  IF "no" \in vs THEN "no" ELSE IF "?" \in vs THEN "?" ELSE "yes"
\* validateTopLevelOnlyEnum: an enum parameter outside the body accepts the declared values only
EnumStrictOf(hd) == "enumStrict" \in DOMAIN hd /\ hd.enumStrict
EnumRejected(hd, p, tokid) == EnumStrictOf(hd) /\ p.in \in {"query", "header", "path", "form"} /\ <<BaseType(p.type), tokid>> \in NonMembers
RespCheckOf(hd) == IF "respCheck" \in DOMAIN hd THEN hd.respCheck ELSE "valid"
Reject422(s, o) == IF MwStops("onInput", o) THEN [Stopped(s, "onInput", o) EXCEPT !.outcome = "rejected-stopped"]
                   ELSE [s EXCEPT !.pc = "done", !.outcome = "rejected", !.status = 422, !.mw = s.mw \o MwRun("onInput", o)]
\* opts = [fail : BOOLEAN, sameErr : BOOLEAN, status : Nat, stopAt : STRING]  (status # 0: the controller calls SetStatus(status) before returning)
Step(h, req, script, opts, s) ==
    CASE s.pc = "auth" ->
            IF s.alt > Len(h.alts) THEN [s EXCEPT !.pc = IF h.alts = <<>> THEN "parse" ELSE "refused"]
            ELSE LET c  == h.alts[s.alt]
                     n  == s.calls + 1
                     ok == Decision(script, n)
                     ev == [scheme |-> c.scheme, scopes |-> c.scopes, ok |-> ok]
                 IN  IF ok THEN [s EXCEPT !.pc = "parse", !.calls = n, !.auth = Append(@, ev)]
                     ELSE [s EXCEPT !.alt = @ + 1, !.calls = n, !.auth = Append(@, ev), !.lastStatus = RefusalStatus(n, opts.sameErr)]
      [] s.pc = "refused" -> [s EXCEPT !.pc = "done", !.outcome = "refused", !.status = s.lastStatus]
      [] s.pc = "parse" ->
            IF s.k > Len(h.params) THEN [s EXCEPT !.pc = "invoke"]
            ELSE LET p   == h.params[s.k]
                     tok == req.toks[s.k]
                 IN  IF p.in = "ctx" THEN [s EXCEPT !.k = @ + 1, !.args = Append(@, "ctx")]
                     ELSE IF tok = ABSENT
                          THEN IF p.required THEN Reject422(s, opts)
                               ELSE [s EXCEPT !.k = @ + 1, !.args = Append(@, "null")]
                     ELSE IF ~TokOf(p.type, tok).fits \/ EnumRejected(h, p, tok) THEN Reject422(s, opts)
                     ELSE IF ValidatorVerdict(p, tok) = "no" THEN Reject422(s, opts)
                     ELSE IF ValidatorVerdict(p, tok) = "?" THEN [s EXCEPT !.pc = "done", !.outcome = "open"]       \* beyond the table: no expectation
                     ELSE [s EXCEPT !.k = @ + 1, !.args = Append(@, TokOf(p.type, tok).canon)]
      [] s.pc = "invoke" ->
            \* before-middlewares, then the controller; an operation error is answered first (500, or the status the controller set) after
            \* the onError middlewares; otherwise the value is validated when validateResponsePayload asks for it (respCheck = "invalid":
            \* the controller's zero value does not pass -> onOutput middlewares, 500); otherwise the after-middlewares and the
            \* controller's status, else 200 / 204
            IF MwStops("before", opts) THEN Stopped(s, "before", opts)
            ELSE LET s1 == [s EXCEPT !.mw = s.mw \o MwRun("before", opts), !.outcome = "invoked"] IN
                 IF opts.fail THEN
                      IF MwStops("onError", opts) THEN [Stopped(s1, "onError", opts) EXCEPT !.outcome = "invoked"]
                      ELSE [s1 EXCEPT !.pc = "done", !.mw = s1.mw \o MwRun("onError", opts), !.status = IF opts.status # 0 THEN opts.status ELSE 500]
                 ELSE IF RespCheckOf(h) = "invalid" THEN
                      IF MwStops("onOutput", opts) THEN [Stopped(s1, "onOutput", opts) EXCEPT !.outcome = "invoked"]
                      ELSE [s1 EXCEPT !.pc = "done", !.mw = s1.mw \o MwRun("onOutput", opts), !.status = 500]
                 ELSE IF MwStops("after", opts) THEN [Stopped(s1, "after", opts) EXCEPT !.outcome = "invoked"]
                 ELSE [s1 EXCEPT !.pc = "done", !.mw = s1.mw \o MwRun("after", opts),
                                 !.status = IF opts.status # 0 THEN opts.status ELSE IF h.returnsValue THEN 200 ELSE 204]
      [] OTHER -> s

RECURSIVE RunFrom(_, _, _, _, _)
RunFrom(h, req, script, opts, s) == IF s.pc = "done" THEN s ELSE RunFrom(h, req, script, opts, Step(h, req, script, opts, s))
RunOf(h, req, script, opts) == RunFrom(h, req, script, opts, Start)
NoOpts == [fail |-> FALSE, sameErr |-> FALSE, status |-> 0, stopAt |-> ""]

--------------------------------------------------------------------------
(* the step machine as a behaviour, for model checking on a small universe *)
CONSTANTS HandlerChoices, ScriptChoices
VARIABLES h, req, script, st, ropts
rvars == <<h, req, script, st, ropts>>
O(f, st0, stop) == [fail |-> f, sameErr |-> FALSE, status |-> st0, stopAt |-> stop]
OptChoices == { NoOpts, O(TRUE, 503, ""), O(FALSE, 201, "before#2"), O(FALSE, 0, "after#1"), O(TRUE, 0, "onError#2"), O(FALSE, 0, "onInput#1"), O(FALSE, 0, "onOutput#2") }

ReqsFor(hd) == LET choices(p) == IF p.in = "ctx" THEN {ABSENT}
                                 ELSE {x.id : x \in {t \in Tokens : t.ty = BaseType(p.type)}} \cup (IF p.in = "path" THEN {} ELSE {ABSENT})
               IN  {r \in [DOMAIN hd.params -> UNION {choices(hd.params[i]) : i \in DOMAIN hd.params}] : \A i \in DOMAIN hd.params : r[i] \in choices(hd.params[i])}

RInit == /\ h \in HandlerChoices /\ script \in ScriptChoices /\ st = Start /\ ropts \in OptChoices
         /\ req \in {[toks |-> r] : r \in ReqsFor(h)}
RNext == st.pc # "done" /\ st' = Step(h, req, script, ropts, st) /\ UNCHANGED <<h, req, script, ropts>>
RSpec == RInit /\ [][RNext]_rvars /\ WF_rvars(RNext)

Approved(a) == \E i \in DOMAIN a : a[i].ok
\* C03: the controller is reached only after some alternative was approved (or there is no security at all);
\*      arguments are parsed only after the gate; when every alternative refuses nothing is invoked and the status is the last refusal's
C03_Gate    == st.outcome = "invoked" => (h.alts = <<>> \/ Approved(st.auth))
C03_Order   == st.args # <<>> => (h.alts = <<>> \/ Approved(st.auth))
C03_Refused == st.outcome = "refused" => (~Approved(st.auth) /\ Len(st.auth) = Len(h.alts) /\ st.status = RefusalStatus(Len(st.auth), FALSE) /\ st.args = <<>> /\ st.mw = <<>>)
\* middleware stages: a stop is final (418, nothing after it), the controller runs only after the before-stage completed,
\* success and error stages exclude each other
MwSet == {st.mw[i] : i \in DOMAIN st.mw}
C12_MwStages == /\ (st.pc = "done" /\ ropts.stopAt \in MwSet) => (st.status = 418 /\ st.mw[Len(st.mw)] = ropts.stopAt)
                /\ (st.outcome = "invoked") => ({"before#1", "before#2"} \subseteq MwSet)
                /\ ~({"after#1", "onError#1"} \subseteq MwSet) /\ ~({"after#1", "onOutput#1"} \subseteq MwSet) /\ ~({"onInput#1", "before#1"} \subseteq MwSet)
\* alternatives are tried in order, each at most once, stopping at the first approval
C03_InOrder == \A i \in DOMAIN st.auth : st.auth[i].scheme = h.alts[i].scheme /\ st.auth[i].scopes = h.alts[i].scopes
                                          /\ (i < Len(st.auth) => ~st.auth[i].ok)
C05_Reject  == st.outcome = "rejected" => st.status = 422
C05_Args    == st.outcome = "invoked" => Len(st.args) = Len(h.params)
\* the controller never runs with a value a declared validator (as far as the table knows it) refuses, nor - under enumStrict - with a non-member
C05_Valid   == st.outcome = "invoked" => \A i \in DOMAIN h.params : req.toks[i] # ABSENT /\ h.params[i].in # "ctx" =>
                                              (ValidatorVerdict(h.params[i], req.toks[i]) = "yes" /\ ~EnumRejected(h, h.params[i], req.toks[i]))
C14_Done    == <>(st.pc = "done")
\* no user middleware runs unless the gate approved (or the route has no security), and none after a refusal
C03_MwAfterGate == st.mw # <<>> => (h.alts = <<>> \/ Approved(st.auth))
=============================================================================
