SPECIFICATION LSimSpec
CONSTANTS
  DKeys = {"k1","k2","k3"}
  UKeys = {"string","error"}
  FreeKinds = {"ty","ref"}
  MaxDepth = 60
  DropAdjacencyAlways = FALSE
  MaxSet = 2
INVARIANTS EmitStepI
CHECK_DEADLOCK FALSE
