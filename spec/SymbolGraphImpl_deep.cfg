SPECIFICATION LSpec
CONSTANTS
  DKeys = {"k1","k2"}
  UKeys = {"string"}
  FreeKinds = {"ty","ref"}
  MaxDepth = 5
  DropAdjacencyAlways = FALSE
  MaxSet = 1
VIEW iview
INVARIANTS ITypeOK Refines IndexAgree Confluent
CHECK_DEADLOCK FALSE
