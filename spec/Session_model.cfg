SPECIFICATION Spec
CONSTANTS
  MaxLen = 6
  EmitFrom = 100
  GraphIdempotent = TRUE
  CacheTransparent = TRUE
  SerialsMemoised = TRUE
  ScopeFixed = TRUE
  TouchInvisible = TRUE
INVARIANTS C19_FlatStable C19_GraphStable C19_SerialsStable C19_DerivedStable
PROPERTIES C19_SerialsNeverChange
CHECK_DEADLOCK FALSE
