SPECIFICATION Spec
CONSTANTS
  DKeys = {"k1","k2","k3"}
  UKeys = {"string"}
  FreeKinds = {"ty","ref"}
  MaxDepth = 2
  MaxSet = 2
VIEW view
INVARIANTS EmitFull
CHECK_DEADLOCK FALSE
