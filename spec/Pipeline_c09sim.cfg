SPECIFICATION SimSpec
CONSTANTS
  CfgChoices <- CfgsC09
  CtrlChoices <- CtrlsC09
  MethodChoices <- MethodsC09
  TypeChoices <- TypesC09
  MaxCtrls = 3
  MaxMethods = 2
  SortBeforeReduce = TRUE
INVARIANTS EmitCase
CHECK_DEADLOCK FALSE
