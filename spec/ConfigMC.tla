------------------------------ MODULE ConfigMC ------------------------------
(* Model constants for Config (TLC configuration files cannot hold sets built from operators). *)
EXTENDS Config

MC_AllFields == Fields
\* the optional fields whose presence is toggled: every subset
\* (together with the OpenAPI version: each emitter copies the optional sections on its own)
MC_OptFields == {R \o ".packageName", R \o ".outputFilePerms", R \o ".templateOverrides", I \o ".contact", I \o ".license", D,
                 I \o ".description", I \o ".termsOfService", O \o ".openapi"}
MC_OptTokens == {"#ABSENT", "#OBJ"} \cup Versions
\* engines x versions x permission strings x glob sets
MC_MatrixFields == {R \o ".engine", O \o ".openapi", R \o ".outputFilePerms", "commonConfig.controllerGlobs"}
MC_PermFields == {R \o ".outputFilePerms"}
MC_NoFilter == {}
MC_Both == {TRUE, FALSE}
MC_Yes == {TRUE}
MC_No == {FALSE}
=============================================================================
