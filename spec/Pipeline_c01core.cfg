SPECIFICATION Spec
CONSTANTS
  CfgChoices <- CfgsC06one
  CtrlChoices <- CtrlsC01core
  MethodChoices <- MethodsC01core
  TypeChoices <- NoTypes
  MaxCtrls = 1
  MaxMethods = 2
  SortBeforeReduce = TRUE
INVARIANTS EmitCase
CHECK_DEADLOCK FALSE
