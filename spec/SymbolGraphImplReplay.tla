---------------------- MODULE SymbolGraphImplReplay ----------------------
(***************************************************************************)
(* Forces SymbolGraphImpl (abstract model and index-level model in lock    *)
(* step) through one given history (graph_ops.ndjson) and emits, after     *)
(* every operation, the expected public observation AND the expected       *)
(* contents of the four internal indices.  Used to confirm a candidate in  *)
(* isolation and by `./check replay`.                                      *)
(***************************************************************************)
EXTENDS SymbolGraphImpl

Ops == ndJsonDeserialize("graph_ops.ndjson")

LDo(o) ==
    CASE o.op \in {"AddPrimitive", "AddSpecial"} -> LAddBuiltin(o.k)
      [] o.op = "AddAlias"   -> LAddAlias(o.k)
      [] o.op = "AddConst"   -> LAddConst(o.k)
      [] o.op = "AddStruct"  -> LAddStruct(o.k, o.set)
      [] o.op = "AddEnum"    -> LAddEnum(o.k, o.set)
      [] o.op = "AddField"   -> LAddField(o.k, o.to)
      [] o.op = "AddEdge"    -> LAddEdge(o.k, o.to, o.kind)
      [] o.op = "RemoveEdge" -> LRemoveEdge(o.k, o.to, o.kind)
      [] o.op = "RemoveNode" -> LRemoveNode(o.k)
      [] o.op = "Touch"      -> LTouch(o.k)

LReplayNext == Len(hist) < Len(Ops) /\ LDo(Ops[Len(hist) + 1])
LReplaySpec == LInit /\ [][LReplayNext]_allvars
LReplayDone == TLCGet("stats").diameter - 1 = Len(Ops)
=============================================================================
