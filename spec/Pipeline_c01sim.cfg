SPECIFICATION SimSpec
CONSTANTS
  CfgChoices <- CfgsC01
  CtrlChoices <- CtrlsC01
  MethodChoices <- MethodsC01
  TypeChoices <- NoTypes
  MaxCtrls = 2
  MaxMethods = 2
  SortBeforeReduce = TRUE
INVARIANTS EmitCase C02_DocSubsetServed
CHECK_DEADLOCK FALSE
