----------------------------- MODULE RouterMC -----------------------------
EXTENDS Router
S(n, sc) == [scheme |-> n, scopes |-> sc]
P(n, in, w, t, r) == [name |-> n, in |-> in, wire |-> w, type |-> t, required |-> r, validate |-> ""]
PV(n, in, w, t, r, v) == [P(n, in, w, t, r) EXCEPT !.validate = v]
H(alts, ps, rv) == [alts |-> alts, params |-> ps, returnsValue |-> rv, respCheck |-> IF rv /\ Len(ps) = 2 THEN "invalid" ELSE "valid"]
AltChoices == { <<>>, <<S("s1", <<>>)>>, <<S("s1", <<"r">>), S("s2", <<"w">>)>>, <<S("s2", <<>>), S("s2", <<"r">>), S("s1", <<>>)>> }
ParamSeqs == { <<>>, <<P("a", "path", "a", "int", TRUE)>>, <<P("ctx", "ctx", "", "context.Context", FALSE), P("b", "query", "x-b", "*int", FALSE), P("c", "header", "X-C", "string", TRUE)>>,
               <<P("a", "path", "a", "string", TRUE), P("e", "body", "e", "p1.Item", TRUE)>>, <<P("d", "form", "d", "*bool", FALSE), P("b", "query", "b", "[]int", TRUE)>> }
\* declared validators and an enum parameter (strict or not)
ParamSeqsV == { <<PV("a", "path", "a", "int8", TRUE, "gte=1"), PV("b", "query", "b", "string", TRUE, "omitempty,oneof=abc a+b"), P("c", "header", "c", "p1.Color", TRUE)>>,
                <<PV("b", "query", "b", "*int", FALSE, "omitempty,gte=1")>> }
HandlersM == { H(a, ps, rv) @@ [enumStrict |-> FALSE] : a \in AltChoices, ps \in ParamSeqs, rv \in BOOLEAN }
             \cup { H(a, ps, FALSE) @@ [enumStrict |-> es] : a \in {<<>>, <<S("s1", <<"r">>), S("s2", <<"w">>)>>}, ps \in ParamSeqsV, es \in BOOLEAN }
ScriptsM == UNION { [1..n -> BOOLEAN] : n \in 0..3 }
HandlersTok == { H(<<>>, <<>>, FALSE) }
ScriptsTok == { <<>> }
PrintTokens == PrintT("TOKENS " \o ToJson(Tokens))
=============================================================================
