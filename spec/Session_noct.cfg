SPECIFICATION Spec
CONSTANTS
  MaxLen = 4
  EmitFrom = 100
  GraphIdempotent = TRUE
  CacheTransparent = FALSE
  SerialsMemoised = TRUE
  ScopeFixed = TRUE
  TouchInvisible = TRUE
INVARIANTS C19_FlatStable
CHECK_DEADLOCK FALSE
