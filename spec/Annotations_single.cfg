SPECIFICATION Spec
CONSTANTS
  LineSet <- AllSingle
  MaxLines = 1
  GreedyProps = FALSE
INVARIANTS C16_Partition C16_Order C16_ErrorIffMalformed C16_GreedyOnlyAddsErrors Emit
CHECK_DEADLOCK FALSE
