---------------------------- MODULE PathTrieMC ----------------------------
(* Model constants for PathTrie (TLC configuration files cannot hold records). *)
EXTENDS PathTrie

T(segs, form) == [segs |-> segs, form |-> form]

\* 12 templates: root, equal literals in two spellings, distinct literals, parameters with different names and spellings,
\* two-segment combinations of literal/parameter in both positions
TplSmall == { T(<<>>, "plain"), T(<<"a">>, "plain"), T(<<"a">>, "nolead"), T(<<"b">>, "plain"),
              T(<<"{x}">>, "plain"), T(<<"{y}">>, "trail"),
              T(<<"a", "b">>, "plain"), T(<<"a", "{x}">>, "plain"), T(<<"{x}", "b">>, "dbl"), T(<<"{y}", "{y}">>, "plain"),
              T(<<"a">>, "dtrail"), T(<<"a", "b">>, "dmid") }

Segs3 == {"a", "b", "{x}", "{y}"}
\* every template of up to 3 segments over two literals and two parameters, in all four spellings
TplAll == { T(s, f) : s \in UNION {[1..n -> Segs3] : n \in 0..3}, f \in {"plain", "nolead", "trail", "dbl", "dtrail", "dmid"} }
TplTwo == { T(s, f) : s \in UNION {[1..n -> Segs3] : n \in 0..2}, f \in {"plain", "trail"} }
=============================================================================
