SPECIFICATION LReplaySpec
CONSTANTS
  DKeys = {"k1","k2","k3"}
  UKeys = {"string","error"}
  FreeKinds = {"ty","ref"}
  MaxDepth = 1000
  DropAdjacencyAlways = FALSE
  MaxSet = 2
INVARIANTS EmitStepI Refines IndexAgree
POSTCONDITION LReplayDone
CHECK_DEADLOCK FALSE
