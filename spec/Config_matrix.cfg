SPECIFICATION Spec
CONSTANTS
  MaxEdits = 4
  Editable <- MC_MatrixFields
  UseBad = FALSE
  UseGood = TRUE
  AllowedTokens <- MC_NoFilter
  StaleChoices <- MC_Both
  ChmodExisting = TRUE
  KindLabel = "matrix"
INVARIANTS TypeOK BaseIsValid C20_RejectedIsFinal C20_OnlyValidProceeds C20_Honoured Emit
PROPERTIES C20_ConfigFirst
CHECK_DEADLOCK FALSE
