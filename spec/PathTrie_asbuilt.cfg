SPECIFICATION Spec
CONSTANTS
  Templates <- TplSmall
  Verbs = {"GET","POST"}
  MaxLen = 4
  DedupByText = TRUE
INVARIANTS C15_Sound C15_Complete C15_OrderFree
CHECK_DEADLOCK FALSE
