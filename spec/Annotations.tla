---------------------------- MODULE Annotations ----------------------------
(***************************************************************************)
(* Comment-block grammar of gleece annotations (property C16).             *)
(*                                                                         *)
(* The specification never parses text, it builds it: a line is a record   *)
(* of parts (name, value, properties, description) or a free-text token;   *)
(* Text(line) is the comment the author wrote and the expected parse is    *)
(* read off the parts.  A block is built line by line (action AddLine);    *)
(* the block-level rules (attribute order = source order, free lines kept  *)
(* with their index, entity description, malformed JSON5 => error) are     *)
(* operators over the block.  JSON5 objects are paired with their value as *)
(* data (`json`, canonical JSON text): TLA+ does not parse JSON5, the      *)
(* pairing table is part of the trusted base.  "<U1>" stands for a         *)
(* non-ASCII string the harness substitutes on both sides.                 *)
(*                                                                         *)
(* Hazard = a well-formed line whose description contains "})" after a     *)
(* properties object.  GreedyProps = TRUE models the code as built (the    *)
(* greedy `{.*}` group swallows the description up to its last "})" and    *)
(* JSON5 parsing then fails).                                              *)
(***************************************************************************)
EXTENDS Naturals, Sequences, FiniteSets, TLC, Json

CONSTANTS LineSet,       \* the lines a block may be built from
          MaxLines,
          GreedyProps    \* BOOLEAN

VARIABLE block           \* Seq(line)

NONE == "<none>"

\* ---- token tables ------------------------------------------------------
Names  == {"Route", "Query", "Description", "Foo", "method", "Security"}
Values == {NONE, "id", "/a/{b}", "a b", "a-b_c", "a\\b", "{x}"}

\* properties: text as written, value as canonical JSON, bad = malformed JSON5 inside balanced braces
P(t, j, b) == [text |-> t, json |-> j, bad |-> b]
Props == { P("{name: \"x\"}", "{\"name\":\"x\"}", FALSE),
           P("{name: \"x)\"}", "{\"name\":\"x)\"}", FALSE),
           P("{a: {b: [1, \"}\"]}}", "{\"a\":{\"b\":[1,\"}\"]}}", FALSE),
           P("{s: \"a,b\", t: 'q'}", "{\"s\":\"a,b\",\"t\":\"q\"}", FALSE),
           P("{scopes: [\"r\", \"w\"], n: 1.5,}", "{\"scopes\":[\"r\",\"w\"],\"n\":1.5}", FALSE),
           P("{scopes: null}", "{\"scopes\":null}", FALSE),
           P("{}", "{}", FALSE),
           \* a string VALUE that contains the closing sequence "})" followed by a space: any parser that ends the properties at the
           \* first (rather than the last) "})" cuts the object in the middle of the string
           P("{name: \"f\", hint: \"closes (see {expr}) first\"}", "{\"name\":\"f\",\"hint\":\"closes (see {expr}) first\"}", FALSE),
           P("{scopes: [\"read:(any {t}) d\", \"w\"]}", "{\"scopes\":[\"read:(any {t}) d\",\"w\"]}", FALSE),
           P("{name: }", "", TRUE),
           \* a complete object FOLLOWED by more text before the closing parenthesis: malformed as a whole, whatever its first part says
           P("{name: \"x\"} }", "", TRUE),
           P("{scopes: [\"a\"]}, {scopes: [\"b\"]}", "", TRUE),
           P("{name: \"x\"} validate: \"gt=1\" }", "", TRUE),
           P("{name: \"x\" \"y\"}", "", TRUE) }

\* descriptions; hazard = contains "})"
D(t, h) == [text |-> t, hazard |-> h]
Descs == { D(NONE, FALSE), D("some text", FALSE), D("<U1> text <U1>", FALSE), D("see (p) and {b}", FALSE),
           D("like @Other(x) does", FALSE), D("returns {a: (b)})", TRUE) }

\* free-text lines: text as written, value = what must be kept (content without the slashes, trimmed of spaces)
F(t, v) == [kind |-> "free", text |-> t, value |-> v]
FreeLines == { F("// plain text", "plain text"), F("//", ""), F("// ", ""), F("//nospace", "nospace"), F("// @", "@"),
               F("//@Route(/x)", "@Route(/x)"), F("// text @Route(/x)", "text @Route(/x)"), F("// @Route(a.b)", "@Route(a.b)"),
               F("//  @Route(/x)", "@Route(/x)"), F("// <U1> free", "<U1> free"), F("// @Route()", "@Route()"),
               \* content that itself starts or ends with a slash: only the comment marker and the blanks around the content go
               F("// /healthz is the probe", "/healthz is the probe"), F("// see https://x.org/docs/", "see https://x.org/docs/"), F("/// three", "/ three") }

A(n, v, p, d) == [kind |-> "ann", name |-> n, value |-> v, props |-> p, desc |-> d]
NoProps == P(NONE, "", FALSE)
AnnLines == { A(n, v, p, d) : n \in Names, v \in Values, p \in Props \cup {NoProps}, d \in Descs }
            \ { l \in { A(n, v, p, d) : n \in Names, v \in Values, p \in Props \cup {NoProps}, d \in Descs } :
                    l.value = NONE /\ l.props.text # NONE }       \* properties need a value in the grammar

\* ---- the text the author writes ------------------------------------------
Text(l) ==
    IF l.kind = "free" THEN l.text
    ELSE "// @" \o l.name
         \o (IF l.value = NONE THEN ""
             ELSE "(" \o l.value \o (IF l.props.text = NONE THEN "" ELSE ", " \o l.props.text) \o ")")
         \o (IF l.desc.text = NONE THEN "" ELSE " " \o l.desc.text)

\* ---- expected parse ------------------------------------------------------
HasProps(l)  == l.kind = "ann" /\ l.props.text # NONE
Hazardous(l) == HasProps(l) /\ l.desc.hazard
IsBad(l, greedy) == l.kind = "ann" /\ ((HasProps(l) /\ l.props.bad) \/ (greedy /\ Hazardous(l)))

Attr(l) == [name  |-> l.name,
            value |-> IF l.value = NONE THEN "" ELSE l.value,
            props |-> IF HasProps(l) THEN l.props.json ELSE "",
            desc  |-> IF l.desc.text = NONE THEN "" ELSE l.desc.text]

Idx(B, k) == {i \in DOMAIN B : B[i].kind = k}

RECURSIVE SeqOfIdx(_, _, _)
\* ascending sequence of the members of a set of naturals below bound
SeqOfIdx(S, i, bound) == IF i > bound THEN <<>>
                         ELSE (IF i \in S THEN <<i>> ELSE <<>>) \o SeqOfIdx(S, i + 1, bound)

ExpAttrs(B) == LET s == SeqOfIdx(Idx(B, "ann"), 1, Len(B)) IN [j \in DOMAIN s |-> Attr(B[s[j]])]
ExpFree(B)  == LET s == SeqOfIdx(Idx(B, "free"), 1, Len(B)) IN [j \in DOMAIN s |-> [index |-> s[j] - 1, value |-> B[s[j]].value]]

\* leading contiguous free lines, trailing empty ones dropped, joined by newline
RECURSIVE LeadFree(_, _)
LeadFree(B, i) == IF i > Len(B) \/ B[i].kind # "free" THEN <<>> ELSE <<B[i].value>> \o LeadFree(B, i + 1)
RECURSIVE DropTrailingEmpty(_)
DropTrailingEmpty(s) == IF s = <<>> \/ s[Len(s)] # "" THEN s ELSE DropTrailingEmpty(SubSeq(s, 1, Len(s) - 1))
RECURSIVE JoinNL(_, _)
JoinNL(s, i) == IF i > Len(s) THEN "" ELSE (IF i > 1 THEN "\n" ELSE "") \o s[i] \o JoinNL(s, i + 1)

ExpDescription(B) ==
    LET ds == {i \in Idx(B, "ann") : B[i].name = "Description"} IN
    IF ds # {} THEN Attr(B[CHOOSE i \in ds : \A j \in ds : i <= j]).desc
    ELSE JoinNL(DropTrailingEmpty(LeadFree(B, 1)), 1)

ExpError(B, greedy) == \E i \in DOMAIN B : IsBad(B[i], greedy)

Expect(B, greedy) ==
    IF ExpError(B, greedy) THEN [error |-> TRUE, attrs |-> <<>>, free |-> <<>>, description |-> ""]
    ELSE [error |-> FALSE, attrs |-> ExpAttrs(B), free |-> ExpFree(B), description |-> ExpDescription(B)]

\* ---- behaviour -----------------------------------------------------------
Init == block = <<>>
AddLine(l) == Len(block) < MaxLines /\ block' = Append(block, l)
Next == \E l \in LineSet : AddLine(l)
Spec == Init /\ [][Next]_block

SimNext == Len(block) < MaxLines /\ \E l \in {RandomElement(LineSet)} : AddLine(l)
SimSpec == Init /\ [][SimNext]_block

\* ---- design-level sanity (checked by TLC on every block) -------------------
\* what C16 says, restated over the expectation: nothing but annotation lines yields attributes, order is source order,
\* every line is accounted for exactly once, and with the strict reading no well-formed block is an error.
C16_Partition == LET e == Expect(block, FALSE) IN
                 ~e.error => Len(e.attrs) + Len(e.free) = Len(block)
C16_Order     == LET e == Expect(block, FALSE) IN
                 ~e.error => \A j \in DOMAIN e.free : block[e.free[j].index + 1].kind = "free"
C16_ErrorIffMalformed == Expect(block, FALSE).error <=> \E i \in DOMAIN block : HasProps(block[i]) /\ block[i].props.bad
\* the as-built reading rejects strictly more blocks (exactly the hazardous ones)
C16_GreedyOnlyAddsErrors == Expect(block, TRUE).error => (Expect(block, FALSE).error \/ \E i \in DOMAIN block : Hazardous(block[i]))

Emit == block = <<>> \/ PrintT("CASE " \o ToJson([
            lines   |-> [i \in DOMAIN block |-> Text(block[i])],
            hazard  |-> \E i \in DOMAIN block : Hazardous(block[i]),
            rich    |-> \E i \in DOMAIN block : HasProps(block[i]) \/ (block[i].kind = "ann" /\ block[i].desc.text # NONE),
            expect  |-> Expect(block, FALSE),
            asbuilt |-> Expect(block, TRUE)]))
=============================================================================
