SPECIFICATION SimSpec
CONSTANTS
  MaxLen = 9
  EmitFrom = 9
  GraphIdempotent = TRUE
  CacheTransparent = TRUE
  SerialsMemoised = TRUE
  ScopeFixed = TRUE
  TouchInvisible = TRUE
INVARIANTS Emit
CHECK_DEADLOCK FALSE
