SPECIFICATION Spec
CONSTANTS
  MaxLen = 4
  EmitFrom = 100
  GraphIdempotent = TRUE
  CacheTransparent = TRUE
  SerialsMemoised = FALSE
  ScopeFixed = TRUE
  TouchInvisible = TRUE
INVARIANTS C19_SerialsStable
CHECK_DEADLOCK FALSE
