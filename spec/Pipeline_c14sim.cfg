SPECIFICATION SimSpec
CONSTANTS
  CfgChoices <- CfgsC14
  CtrlChoices <- CtrlsC14
  MethodChoices <- MethodsC14
  TypeChoices <- TypeSetsC14
  MaxCtrls = 1
  MaxMethods = 2
  SortBeforeReduce = TRUE
INVARIANTS EmitCase
CHECK_DEADLOCK FALSE
