SPECIFICATION Spec
CONSTANTS
  Templates <- TplSmall
  Verbs = {"GET","POST"}
  MaxLen = 3
  DedupByText = FALSE
INVARIANTS Emit
CHECK_DEADLOCK FALSE
