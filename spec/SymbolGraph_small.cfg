SPECIFICATION Spec
CONSTANTS
  DKeys = {"k1","k2"}
  UKeys = {"string"}
  FreeKinds = {"ty","ref"}
  MaxDepth = 4
  MaxSet = 1
VIEW view
INVARIANTS TypeOK C17_InOutAgree C17_ViewsAgree C17_VersionSane
PROPERTIES C17_Idempotent C17_Removal C17_Replace
CHECK_DEADLOCK FALSE
