SPECIFICATION RSpec
CONSTANTS
  HandlerChoices <- HandlersTok
  ScriptChoices <- ScriptsTok
INVARIANTS PrintTokens
CHECK_DEADLOCK FALSE
