----------------------------- MODULE SessionMC -----------------------------
(* Emission and simulation wrappers for Session: one CASE per history - the call sequence and, per call, the   *)
(* equalities an observer of the real pipeline must measure (relative to a fresh session), plus what a         *)
(* brand-new pipeline created afterwards in the same process must hand out for Run; GenerateSpec.              *)
EXTENDS Session, Json

CONSTANT EmitFrom   \* histories shorter than this are not printed (simulation prints complete walks only)

AfterNew == <<Expect(Out(New, "Run")), Expect(Out(Step(New, "Run"), "GenerateSpec"))>>

Emit == IF Len(hist) >= EmitFrom /\ Len(hist) >= 1
        THEN PrintT("CASE " \o ToJson([hist |-> hist, steps |-> [i \in DOMAIN out |-> Expect(out[i])], after |-> AfterNew]))
        ELSE TRUE

\* random walks: exactly one successor per state
SimNext == Len(hist) < MaxLen /\ \E c \in {RandomElement({x \in Calls : Enabled(st, x)})} : Call(c)
SimSpec == Init /\ [][SimNext]_vars
=============================================================================
