SPECIFICATION LSpec
CONSTANTS
  DKeys = {"k1","k2"}
  UKeys = {"string"}
  FreeKinds = {"ty","ref"}
  MaxDepth = 4
  DropAdjacencyAlways = TRUE
  MaxSet = 1
VIEW iview
INVARIANTS IndexAgree
CHECK_DEADLOCK FALSE
