SPECIFICATION SimSpec
CONSTANTS
  CfgChoices <- CfgsC07
  CtrlChoices <- CtrlsC19
  MethodChoices <- MethodsC07
  TypeChoices <- TypeZoo
  MaxCtrls = 3
  MaxMethods = 2
  SortBeforeReduce = TRUE
INVARIANTS EmitCase
CHECK_DEADLOCK FALSE
