SPECIFICATION Spec
CONSTANTS
  CfgChoices <- CfgsC06one
  CtrlChoices <- CtrlsC06
  MethodChoices <- MethodsGrouped
  TypeChoices <- StdTypes
  MaxCtrls = 1
  MaxMethods = 1
  SortBeforeReduce = TRUE
INVARIANTS EmitCase
CHECK_DEADLOCK FALSE
