SPECIFICATION FairSpec
CONSTANTS
  CfgChoices <- CfgsM
  CtrlChoices <- CtrlsM
  MethodChoices <- MethodsM
  TypeChoices <- NoTypes
  MaxCtrls = 2
  MaxMethods = 1
  SortBeforeReduce = TRUE
INVARIANTS C14_ExitSane C02_DocSubsetServed C01_SpecIsDocumented C10_AcceptIffWellLinked C13_Deterministic
PROPERTIES C08_ValidateFirst C10_NoOutputOnError C20_ConfigFirst C14_Terminates
CHECK_DEADLOCK FALSE
