SPECIFICATION Spec
CONSTANTS
  Templates <- TplSmall
  Verbs = {"GET","POST"}
  MaxLen = 4
  DedupByText = FALSE
INVARIANTS Emit
CHECK_DEADLOCK FALSE
