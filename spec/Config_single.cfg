SPECIFICATION Spec
CONSTANTS
  MaxEdits = 1
  Editable <- MC_AllFields
  UseBad = TRUE
  UseGood = TRUE
  AllowedTokens <- MC_NoFilter
  StaleChoices <- MC_Yes
  ChmodExisting = TRUE
  KindLabel = "single"
INVARIANTS TypeOK BaseIsValid C20_RejectedIsFinal C20_OnlyValidProceeds C20_Honoured Emit
PROPERTIES C20_ConfigFirst
CHECK_DEADLOCK FALSE
