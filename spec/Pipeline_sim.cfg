SPECIFICATION SimSpec
CONSTANTS
  CfgChoices <- CfgsSim
  CtrlChoices <- CtrlsSimD
  MethodChoices <- MethodsSim
  TypeChoices <- NoTypes
  MaxCtrls = 3
  MaxMethods = 3
  SortBeforeReduce = TRUE
INVARIANTS EmitCase C02_DocSubsetServed
CHECK_DEADLOCK FALSE
