SPECIFICATION Spec
CONSTANTS
  LineSet <- BlockLines
  MaxLines = 3
  GreedyProps = FALSE
INVARIANTS C16_Partition C16_Order C16_ErrorIffMalformed C16_GreedyOnlyAddsErrors Emit
CHECK_DEADLOCK FALSE
