SPECIFICATION Spec
CONSTANTS
  MaxLen = 5
  EmitFrom = 1
  GraphIdempotent = TRUE
  CacheTransparent = TRUE
  SerialsMemoised = TRUE
  ScopeFixed = TRUE
  TouchInvisible = TRUE
INVARIANTS Emit
CHECK_DEADLOCK FALSE
