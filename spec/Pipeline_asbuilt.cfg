SPECIFICATION Spec
CONSTANTS
  CfgChoices <- CfgsM
  CtrlChoices <- CtrlsM
  MethodChoices <- MethodsM
  TypeChoices <- NoTypes
  MaxCtrls = 2
  MaxMethods = 1
  SortBeforeReduce = FALSE
INVARIANTS C14_ExitSane C02_DocSubsetServed C01_SpecIsDocumented C10_AcceptIffWellLinked C13_Deterministic

CHECK_DEADLOCK FALSE
