------------------------------ MODULE Pipeline ------------------------------
(***************************************************************************)
(* One gleece session as a state machine.                                  *)
(*                                                                         *)
(* Phase 1 — the environment (the author) builds a project and a           *)
(*   configuration step by step: AddCtrl, AddMethod, Freeze.  This is how  *)
(*   TLC enumerates (exhaustive configs) or random-walks (-simulate) the   *)
(*   input space.                                                          *)
(* Phase 2 — the session, one action per critical section of the code      *)
(*   (cmd/entrypoint.go, core/pipeline/pipeline.go, generator/...):          *)
(*   LoadConfig -> LoadPackages -> VisitFile* -> Validate ->               *)
(*   (FailOnDiagnostics | Reduce) -> WriteRoutes -> BuildSpec30 ->         *)
(*   ValidateSpec30 -> [BuildSpec31 -> ValidateSpec31] -> WriteSpec -> Exit *)
(*   with the non-determinism the code really has: the order in which      *)
(*   files are visited and the order in which controller nodes come out of *)
(*   the graph (both Go map iterations) and the first-come numbering of    *)
(*   import serials that depends on the latter.                            *)
(*                                                                         *)
(* The data content of the artifacts is given by the declarative operators *)
(* of Project.tla; this module is about order, gating and determinism:     *)
(* C08 (validate before write), C10 (no output on error), C13 (terminal    *)
(* artifacts independent of the schedule), C14 (termination), C20 (config  *)
(* first).                                                                 *)
(***************************************************************************)
EXTENDS Project, Json

CONSTANTS CfgChoices,        \* set of cfg records
          CtrlChoices,       \* set of controller records without id
          MethodChoices,     \* set of method records without ctrl/name/sig/anns (those are derived)
          TypeChoices,       \* set of sequences of type declarations a project may contain
          MaxCtrls, MaxMethods,
          SortBeforeReduce   \* BOOLEAN: controllers are sorted by name BEFORE import serials are handed out (the repaired code)

VARIABLES proj,      \* the project under construction / under analysis
          pc,        \* "author" | "config" | "load" | "visit" | "validate" | "reduce" | "routes" | "spec30" | "valid30" | "spec31" | "valid31" | "write" | "done" | "failed"
          pending,   \* files not yet visited
          visited,   \* sequence of controller ids in the order the visitor met them (graph insertion order is irrelevant: FindByKind is a map walk)
          order,     \* the order in which FindByKind handed the controllers to Reduce (chosen non-deterministically)
          serial,    \* function: controller id -> import serial handed out during Reduce
          fsys,      \* [routes : BOOLEAN, spec : BOOLEAN, routesContent, specContent]
          valid30, valid31,
          exit       \* [code, msg]

vars == <<proj, pc, pending, visited, order, serial, fsys, valid30, valid31, exit>>

NoFs == [routes |-> FALSE, spec |-> FALSE, routesContent |-> <<>>, specContent |-> <<>>]

\* ---- phase 1: the author -----------------------------------------------------
NameOfMethod(k) == "M" \o ToString(k)
CtrlId(k) == "c" \o ToString(k)

\* every {name} of the full route gets a string parameter bound by @Path (well-linked by construction)
AutoSig(c, mc)  == LET ph == Placeholders(c.prefix \o mc.route) IN [i \in DOMAIN ph |-> [name |-> ph[i], type |-> "string"]]
AutoAnns(c, mc) == LET ph == Placeholders(c.prefix \o mc.route) IN
                   [i \in DOMAIN ph |-> [kind |-> "Path", value |-> ph[i], alias |-> "", validate |-> "", desc |-> ""]]

MkCtrl(cc, k) == [id |-> CtrlId(k), pkg |-> cc.pkg, file |-> cc.file, name |-> cc.name, prefix |-> cc.prefix, tag |-> cc.tag,
                  sec |-> cc.sec, desc |-> cc.desc, outside |-> ("outside" \in DOMAIN cc /\ cc.outside)]
MkMethod(c, mc, k) ==
    [ctrl |-> c.id, file |-> IF mc.file = "" \/ c.outside THEN c.file ELSE mc.file, name |-> NameOfMethod(k), verb |-> mc.verb,
     route |-> IF "uniq" \in DOMAIN mc THEN "/m" \o ToString(k) \o mc.route ELSE mc.route,
     hidden |-> mc.hidden, deprecated |-> mc.deprecated, sec |-> mc.sec,
     sig |-> IF "sig" \in DOMAIN mc THEN mc.sig ELSE AutoSig(c, mc),
     anns |-> IF "anns" \in DOMAIN mc THEN mc.anns ELSE AutoAnns(c, mc),
     ret |-> mc.ret, errors |-> mc.errors, response |-> mc.response, desc |-> mc.desc,
     ptag |-> IF "ptag" \in DOMAIN mc THEN mc.ptag ELSE "",
     \* a properties object on @Method (which takes none): lint material only - a warning, never a reason to reject
     verbProps |-> IF "verbProps" \in DOMAIN mc THEN mc.verbProps ELSE "",
     \* rendering only: adjacent parameters of one type are declared as a Go identifier list - func (a, b, c string, d int) -
     \* (the documented / bound order is the signature order whichever way the author groups the names)
     \* groups = <<3, 1>>: the first three names share one identifier list, the fourth stands alone; <<>> = one name per declaration
     groups |-> IF "groups" \in DOMAIN mc THEN mc.groups ELSE <<>>,
     \* layout only: every name of the signature on a line of its own (a multi-name declaration then spans several lines)
     multiline |-> ("multiline" \in DOMAIN mc /\ mc.multiline),
     \* spelling only: what follows "@Hidden" / "@Deprecated" on their lines - a value in parentheses, a description (the route is
     \* hidden / deprecated whichever way the annotation is spelled)
     hiddenSfx |-> IF "hiddenSfx" \in DOMAIN mc THEN mc.hiddenSfx ELSE "",
     deprecatedSfx |-> IF "deprecatedSfx" \in DOMAIN mc THEN mc.deprecatedSfx ELSE ""]

MethodsOfLast == IF proj.ctrls = <<>> THEN 0
                 ELSE Cardinality({i \in DOMAIN proj.methods : proj.methods[i].ctrl = proj.ctrls[Len(proj.ctrls)].id})

\* a glob matches whole files: no file holds both matched ("inside") and unmatched ("outside") declarations
FilesOf(p, out) == {<<c.pkg, c.file>> : c \in {x \in Range(p.ctrls) : x.outside = out}}
                   \cup {<<CtrlOf(p, m).pkg, m.file>> : m \in {x \in Range(p.methods) : CtrlOf(p, x).outside = out}}
FilesApart(c, mfile) == LET fs == {<<c.pkg, c.file>>} \cup (IF mfile = "" THEN {} ELSE {<<c.pkg, mfile>>})
                        IN  fs \cap FilesOf(proj, ~c.outside) = {}

AddCtrl(cc) ==
    /\ pc = "author" /\ Len(proj.ctrls) < MaxCtrls
    /\ (proj.ctrls # <<>> => MethodsOfLast >= 1)
    /\ \A c \in Range(proj.ctrls) : ~(c.name = cc.name /\ c.pkg = cc.pkg)
    /\ FilesApart(MkCtrl(cc, 0), "")
    /\ (proj.ctrls = <<>> => ~MkCtrl(cc, 0).outside)          \* (a project has a matched controller: the first one)
    /\ proj' = [proj EXCEPT !.ctrls = Append(@, MkCtrl(cc, Len(proj.ctrls) + 1))]
    /\ UNCHANGED <<pc, pending, visited, order, serial, fsys, valid30, valid31, exit>>

\* every declared-looking type (pkg.Name with pkg one of the project's packages) a method mentions must be declared in the project
Mentioned(mc) == (IF "sig" \in DOMAIN mc THEN {CoreType(x.type) : x \in Range(mc.sig)} ELSE {}) \cup {CoreType(r) : r \in Range(mc.ret)}
LooksDeclared(n) == Len(n) > 3 /\ SubSeq(n, 1, 3) \in {"p1.", "p2."}
\* an instantiated generic - p1.Gen[[]string] - is known when its base - p1.Gen - is declared
RECURSIVE FirstBracket(_, _)
FirstBracket(n, i) == IF i > Len(n) THEN 0 ELSE IF Ch(n, i) = "[" THEN i ELSE FirstBracket(n, i + 1)
GenericBase(n) == IF FirstBracket(n, 1) = 0 THEN n ELSE SubSeq(n, 1, FirstBracket(n, 1) - 1)
TypesKnown(mc) == \A n \in Mentioned(mc) : LooksDeclared(n) => IsDeclared(proj, GenericBase(n))

\* Go forbids import cycles: when p2 holds model types (which p1's types may use), a controller in p2 mentions no p1 type
NoCycle(mc) == (proj.ctrls[Len(proj.ctrls)].pkg = "p2" /\ \E i \in DOMAIN proj.types : proj.types[i].pkg = "p2")
               => \A n \in Mentioned(mc) : ~(Len(n) > 3 /\ SubSeq(n, 1, 3) = "p1.")
MethodOk(mc) == TypesKnown(mc) /\ NoCycle(mc) /\ FilesApart(proj.ctrls[Len(proj.ctrls)], IF proj.ctrls[Len(proj.ctrls)].outside THEN "" ELSE mc.file)
AddMethod(mc) ==
    /\ pc = "author" /\ proj.ctrls # <<>> /\ MethodsOfLast < MaxMethods
    /\ MethodOk(mc)
    /\ proj' = [proj EXCEPT !.methods = Append(@, MkMethod(proj.ctrls[Len(proj.ctrls)], mc, Len(proj.methods) + 1))]
    /\ UNCHANGED <<pc, pending, visited, order, serial, fsys, valid30, valid31, exit>>

Freeze ==
    /\ pc = "author" /\ proj.ctrls # <<>> /\ MethodsOfLast >= 1
    /\ pc' = "config"
    /\ UNCHANGED <<proj, pending, visited, order, serial, fsys, valid30, valid31, exit>>

\* ---- phase 2: the session ------------------------------------------------------
Files(p)  == {<<c.pkg, c.file>> : c \in Range(p.ctrls)} \cup {<<CtrlOf(p, m).pkg, m.file>> : m \in Range(p.methods)}
\* cfg.asCoded (set only when the machine is run against traces of the real code): acceptance as the validators are coded, i.e. with
\* the recorded deviations of Project!WellLinkedAsCoded; cfg.cmd: which generate command runs (default: spec-and-routes)
AsCoded(p) == "asCoded" \in DOMAIN p.cfg /\ p.cfg.asCoded
CmdOf(p) == IF "cmd" \in DOMAIN p.cfg THEN p.cfg.cmd ELSE "spec-and-routes"
Linked(p, m) == IF AsCoded(p) THEN WellLinkedAsCoded(p, m) ELSE WellLinked(p, m)
ErrorDiags(p) == {m \in Range(p.methods) : IsApi(m) /\ (~Linked(p, m) \/ (p.cfg.enforce /\ EffectiveSecurity(p.cfg, CtrlOf(p, m), m) = <<>>))}
SpecBuildable(p) == SchemesDeclared(p)
\* the built document does not validate when a documented path does not begin with a slash (the concatenation of an empty or
\* slash-less controller prefix and a slash-less method route): the command then fails and writes nothing
\* two documented paths that differ only in the NAME of a placeholder are one path template to OpenAPI: the document does not validate
RECURSIVE AnonFrom(_, _, _)
AnonFrom(s, i, inside) == IF i > Len(s) THEN ""
                          ELSE IF Ch(s, i) = "{" THEN "{" \o AnonFrom(s, i + 1, TRUE)
                          ELSE IF Ch(s, i) = "}" THEN "}" \o AnonFrom(s, i + 1, FALSE)
                          ELSE IF inside THEN AnonFrom(s, i + 1, TRUE) ELSE Ch(s, i) \o AnonFrom(s, i + 1, FALSE)
Anonymous(path) == AnonFrom(path, 1, FALSE)            \* "/a/{id}/b" -> "/a/{}/b"
SamePathShape(a, b) == Anonymous(a) = Anonymous(b)
SpecValidatable(p) == /\ \A o \in DocumentedOps(p) : Len(o.path) > 0 /\ Ch(o.path, 1) = "/"
                      /\ \A o1, o2 \in DocumentedOps(p) : (o1.path # o2.path /\ Ch(o1.path, 1) = "/" /\ Ch(o2.path, 1) = "/") => ~SamePathShape(o1.path, o2.path)
                      /\ \A m \in Range(p.methods) : (IsApi(m) /\ ~m.hidden) => PathParamsMatch(p, m)     \* (implied by WellLinked; not by the as-coded variant)
\* as coded, some malformed annotation properties surface only while the metadata is reduced (Project!LateAliasError)
ReduceFails(p) == AsCoded(p) /\ \E m \in Range(p.methods) : IsApi(m) /\ LateAliasError(m)
ConfigValid(cfg) == cfg.engine \in {"gin", "echo", "mux", "chi", "fiber"} /\ cfg.version \in {"3.0.0", "3.1.0"}

Fail(msg) == pc' = "failed" /\ exit' = [code |-> 1, msg |-> msg]

LoadConfig ==
    /\ pc = "config"
    /\ IF ConfigValid(proj.cfg) THEN pc' = "load" /\ UNCHANGED exit ELSE Fail("invalid configuration")
    /\ UNCHANGED <<proj, pending, visited, order, serial, fsys, valid30, valid31>>

\* initWithGlobs: from here on the analysis sees the files the globs matched and nothing else
LoadPackages ==
    /\ pc = "load" /\ proj' = Scoped(proj) /\ pending' = Files(Scoped(proj)) /\ pc' = "visit"
    /\ UNCHANGED <<visited, order, serial, fsys, valid30, valid31, exit>>

\* files come out of a Go map: any order
VisitFile(f) ==
    /\ pc = "visit" /\ f \in pending
    /\ pending' = pending \ {f}
    /\ LET here == {i \in DOMAIN proj.ctrls : <<proj.ctrls[i].pkg, proj.ctrls[i].file>> = f}
           RECURSIVE asc(_) asc(i) == IF i > Len(proj.ctrls) THEN <<>> ELSE (IF i \in here THEN <<proj.ctrls[i].id>> ELSE <<>>) \o asc(i + 1)
       IN  visited' = visited \o asc(1)                    \* declarations of one file are met in source order
    /\ pc' = IF pending' = {} THEN "validate" ELSE "visit"
    /\ UNCHANGED <<proj, order, serial, fsys, valid30, valid31, exit>>

Perms(S) == {s \in [1..Cardinality(S) -> S] : \A i, j \in DOMAIN s : i # j => s[i] # s[j]}
\* every pending file visited, in some order: the composition of the VisitFile steps (one GenerateGraph call of the code)
VisitAll ==
    /\ pc = "visit" /\ pending # {}
    /\ \E o \in Perms(pending) :
         LET RECURSIVE ctrlsOf(_) ctrlsOf(i) == IF i > Len(o) THEN <<>>
                 ELSE SelectSeq([k \in DOMAIN proj.ctrls |-> proj.ctrls[k].id], LAMBDA id : <<(CHOOSE c \in Range(proj.ctrls) : c.id = id).pkg, (CHOOSE c \in Range(proj.ctrls) : c.id = id).file>> = o[i]) \o ctrlsOf(i + 1)
         IN  visited' = visited \o ctrlsOf(1)
    /\ pending' = {} /\ pc' = "validate"
    /\ UNCHANGED <<proj, order, serial, fsys, valid30, valid31, exit>>

Validate ==
    /\ pc = "validate"
    /\ IF ErrorDiags(proj) # {} THEN Fail("diagnostics") ELSE pc' = "reduce" /\ UNCHANGED exit
    /\ UNCHANGED <<proj, pending, visited, order, serial, fsys, valid30, valid31>>

NameOfCtrl(id) == (CHOOSE c \in Range(proj.ctrls) : c.id = id).name
\* import serials are handed out first-come while the controllers are reduced
\* TLC cannot order strings: controller names come from a fixed alphabet, ranked here (ties broken by id)
Rank(n) == CASE n = "AController" -> 1 [] n = "BController" -> 2 [] n = "CController" -> 3 [] n = "DController" -> 4 [] OTHER -> 9
IdRank(id) == CHOOSE k \in 1..Len(proj.ctrls) : proj.ctrls[k].id = id
Before(a, b) == Rank(NameOfCtrl(a)) < Rank(NameOfCtrl(b)) \/ (Rank(NameOfCtrl(a)) = Rank(NameOfCtrl(b)) /\ IdRank(a) <= IdRank(b))
SortedByName(ids) == CHOOSE s \in Perms(ids) : \A i, j \in DOMAIN s : i < j => Before(s[i], s[j])

Reduce ==
    /\ pc = "reduce"
    /\ \E o \in Perms({c.id : c \in Range(proj.ctrls)}) :           \* FindByKind: a map walk, any order
         /\ order' = o
         /\ LET eff == IF SortBeforeReduce THEN SortedByName(Range(o)) ELSE o      \* the order in which serials are handed out
            IN  serial' = [id \in Range(eff) |-> CHOOSE i \in DOMAIN eff : eff[i] = id]
    /\ IF ReduceFails(proj) THEN Fail("failed to reduce the metadata")
       ELSE pc' = (IF CmdOf(proj) = "spec" THEN "spec30" ELSE "routes") /\ UNCHANGED exit
    /\ UNCHANGED <<proj, pending, visited, fsys, valid30, valid31>>

\* the routes file lists controllers sorted by name and mentions each controller's serial
RoutesContent == [c \in {x.id : x \in Range(proj.ctrls)} |-> serial[c]]
WriteRoutes ==
    /\ pc = "routes"
    /\ fsys' = [fsys EXCEPT !.routes = TRUE, !.routesContent = RoutesContent]
    /\ IF CmdOf(proj) = "routes" THEN pc' = "done" /\ exit' = [code |-> 0, msg |-> ""] ELSE pc' = "spec30" /\ UNCHANGED exit
    /\ UNCHANGED <<proj, pending, visited, order, serial, valid30, valid31>>

BuildSpec30 ==
    /\ pc = "spec30"
    /\ IF SpecBuildable(proj) THEN pc' = "valid30" /\ UNCHANGED exit ELSE Fail("undeclared security scheme")
    /\ UNCHANGED <<proj, pending, visited, order, serial, fsys, valid30, valid31>>

ValidateSpec30 ==
    /\ pc = "valid30"
    /\ IF SpecValidatable(proj)
       THEN valid30' = TRUE /\ pc' = (IF proj.cfg.version = "3.1.0" THEN "spec31" ELSE "write") /\ UNCHANGED exit
       ELSE Fail("the OpenAPI document does not validate") /\ UNCHANGED valid30
    /\ UNCHANGED <<proj, pending, visited, order, serial, fsys, valid31>>

BuildSpec31 == pc = "spec31" /\ valid30 /\ pc' = "valid31" /\ UNCHANGED <<proj, pending, visited, order, serial, fsys, valid30, valid31, exit>>
ValidateSpec31 == pc = "valid31" /\ valid31' = TRUE /\ pc' = "write" /\ UNCHANGED <<proj, pending, visited, order, serial, fsys, valid30, exit>>

WriteSpec ==
    /\ pc = "write" /\ valid30 /\ (proj.cfg.version = "3.1.0" => valid31)
    /\ fsys' = [fsys EXCEPT !.spec = TRUE, !.specContent = DocumentedOps(proj)]
    /\ pc' = "done" /\ exit' = [code |-> 0, msg |-> ""]
    /\ UNCHANGED <<proj, pending, visited, order, serial, valid30, valid31>>

Session == LoadConfig \/ LoadPackages \/ (\E f \in pending : VisitFile(f)) \/ Validate \/ Reduce \/ WriteRoutes
           \/ BuildSpec30 \/ ValidateSpec30 \/ BuildSpec31 \/ ValidateSpec31 \/ WriteSpec

Init == /\ proj \in {[cfg |-> c, ctrls |-> <<>>, methods |-> <<>>, types |-> ts] : c \in CfgChoices, ts \in TypeChoices}
        /\ pc = "author" /\ pending = {} /\ visited = <<>> /\ order = <<>> /\ serial = <<>> /\ fsys = NoFs
        /\ valid30 = FALSE /\ valid31 = FALSE /\ exit = [code |-> 9, msg |-> ""]

Author == (\E cc \in CtrlChoices : AddCtrl(cc)) \/ (\E mc \in MethodChoices : AddMethod(mc)) \/ Freeze
Next == Author \/ Session
Spec == Init /\ [][Next]_vars
FairSpec == Spec /\ WF_vars(Session)

\* random walks (one successor per state, see SymbolGraph.tla)
One(S) == {RandomElement(S)}
SimAuthor ==
    \/ /\ pc = "author" /\ proj.ctrls # <<>> /\ MethodsOfLast >= 1
       /\ \E go \in One({"more", "more", "ctrl", "freeze"}) :
            CASE go = "freeze" -> Freeze
              [] go = "ctrl" -> IF Len(proj.ctrls) < MaxCtrls
                                THEN \E cc \in One({x \in CtrlChoices : FilesApart(MkCtrl(x, 0), "") /\ \A c \in Range(proj.ctrls) : ~(c.name = x.name /\ c.pkg = x.pkg)}) : AddCtrl(cc)
                                ELSE Freeze
              [] OTHER -> IF MethodsOfLast < MaxMethods THEN \E mc \in One({x \in MethodChoices : MethodOk(x)}) : AddMethod(mc) ELSE Freeze
    \/ /\ pc = "author" /\ proj.ctrls = <<>> /\ \E cc \in One({x \in CtrlChoices : ~MkCtrl(x, 0).outside}) : AddCtrl(cc)
    \/ /\ pc = "author" /\ proj.ctrls # <<>> /\ MethodsOfLast = 0 /\ \E mc \in One({x \in MethodChoices : MethodOk(x)}) : AddMethod(mc)
\* (RandomElement inside an initial predicate would be evaluated once for the whole simulation: enumerate the initial states
\*  instead - the simulator picks one of them at random for every walk)
SimInit == Init
SimSpec == SimInit /\ [][SimAuthor]_vars

--------------------------------------------------------------------------
(* Properties of the design                                               *)
C08_ValidateFirst == [][fsys'.spec # fsys.spec => valid30' /\ (proj.cfg.version = "3.1.0" => valid31')]_vars
C10_NoOutputOnError == [][(pc \notin {"author"} /\ ErrorDiags(proj) # {}) => fsys' = fsys]_vars
C10_AcceptIffWellLinked == pc = "done" => \A m \in Range(proj.methods) : IsApi(m) => WellLinked(proj, m)
C20_ConfigFirst == [][~ConfigValid(proj.cfg) => (pending' = {} /\ fsys' = fsys)]_vars
C14_Terminates == (pc = "config") ~> (pc \in {"done", "failed"})
C14_ExitSane == (pc = "failed" => exit.code = 1 /\ exit.msg # "") /\ (pc = "done" => exit.code = 0)
C02_DocSubsetServed == pc # "author" => DocSubsetServed(proj)
C01_SpecIsDocumented == (pc = "done" /\ CmdOf(proj) # "routes") => fsys.specContent = DocumentedOps(proj)
\* determinism: what ends up on disk does not depend on the schedule. With serials handed out in FindByKind order this is
\* false as soon as two controllers need serials; with SortBeforeReduce it holds.
Canonical == [c \in {x.id : x \in Range(proj.ctrls)} |->
                 LET s == SortedByName({x.id : x \in Range(proj.ctrls)}) IN CHOOSE i \in DOMAIN s : s[i] = c]
C13_Deterministic == (pc = "done" /\ CmdOf(proj) # "spec") => fsys.routesContent = Canonical

--------------------------------------------------------------------------
Expect(p) == [ops |-> DocumentedOps(p), security |-> OpSecurity(p), enforceOk |-> EnforceOk(p), schemesDeclared |-> SchemesDeclared(p),
              ambiguous |-> Ambiguous(p), operations |-> ExpectedOperations(p),
              wellLinked |-> \A m \in Range(p.methods) : IsApi(m) => WellLinked(p, m),
              served |-> Served(p), handlers |-> Handlers(p), conflicting |-> ConflictingMethods(p),
              components |-> ExpectedComponents(p), plainError |-> PlainErrorPresent(p), nameClash |-> NameClash(p),
              routes |-> {[name |-> m.name, wellLinked |-> WellLinked(p, m), wellLinkedAsBuilt |-> WellLinkedD(p, m, TRUE), ptag |-> m.ptag]
                             : m \in {x \in Range(p.methods) : IsApi(x)}}]
EmitCase == pc = "config" => PrintT("CASE " \o ToJson([cfg |-> proj.cfg, ctrls |-> proj.ctrls, methods |-> proj.methods, types |-> proj.types, expect |-> Expect(Scoped(proj))]))
=============================================================================
