SPECIFICATION Spec
CONSTANTS
  CfgChoices <- CfgsC10
  CtrlChoices <- CtrlsC10core
  MethodChoices <- MethodsC10double
  TypeChoices <- StdTypes
  MaxCtrls = 1
  MaxMethods = 1
  SortBeforeReduce = TRUE
INVARIANTS EmitCase
CHECK_DEADLOCK FALSE
