SPECIFICATION RSpec
CONSTANTS
  HandlerChoices <- HandlersM
  ScriptChoices <- ScriptsM
INVARIANTS C03_Gate C03_Order C03_Refused C03_InOrder C05_Reject C05_Args C05_Valid C03_MwAfterGate C12_MwStages
PROPERTIES C14_Done
CHECK_DEADLOCK FALSE
