SPECIFICATION SimSpec
CONSTANTS
  CfgChoices <- CfgsC07
  CtrlChoices <- CtrlsC06
  MethodChoices <- MethodsC07
  TypeChoices <- TypeZoo
  MaxCtrls = 1
  MaxMethods = 3
  SortBeforeReduce = TRUE
INVARIANTS EmitCase
CHECK_DEADLOCK FALSE
