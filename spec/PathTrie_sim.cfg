SPECIFICATION SimSpec
CONSTANTS
  Templates <- TplAll
  Verbs = {"GET","POST"}
  MaxLen = 6
  DedupByText = FALSE
INVARIANTS Emit
CHECK_DEADLOCK FALSE
