SPECIFICATION TraceSpec
CONSTANTS
  DKeys = {"k1","k2","k3"}
  UKeys = {"string","error"}
  FreeKinds = {"ty","ref"}
  MaxDepth = 1000000
  MaxSet = 2
INVARIANTS C17_InOutAgree C17_ViewsAgree C17_VersionSane
POSTCONDITION TraceAccepted
CHECK_DEADLOCK FALSE
