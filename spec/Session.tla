------------------------------ MODULE Session ------------------------------
(***************************************************************************)
(* C19 - a long-lived analysis session.  ONE pipeline.GleecePipeline is    *)
(* kept alive over an unchanged, accepted project (the way an editor       *)
(* integration does) and receives an arbitrary sequence of calls           *)
(*   GenerateGraph | Validate | GenerateIntermediate | Run                 *)
(* plus GenerateSpec, by which the caller hands the metadata it holds to   *)
(* the OpenAPI generator (the generator appends to it in place, so the     *)
(* caller holds nothing afterwards, exactly as cmd.GenerateSpec does).     *)
(*                                                                         *)
(* The project is FIXED, so everything a call can hand out is an abstract  *)
(* token.  The tokens of a brand-new session that runs                     *)
(* GenerateGraph; Validate; GenerateIntermediate; GenerateSpec once are    *)
(*     G0 (graph)  D0 (diagnostics)  F0 (flattened metadata)               *)
(*     S0 (import serials)  P0 (OpenAPI bytes)                             *)
(* The property says a session never hands out anything else, however      *)
(* often and in whichever order the calls are repeated:                    *)
(*   - the graph is built by the first GenerateGraph/Run and then stays    *)
(*     what it is (createAndAddSymNode -> idempotencyGuard),               *)
(*   - answers served from MetadataCache equal freshly computed ones       *)
(*     (RouteVisitor.VisitMethod returns the cached ReceiverMeta),         *)
(*   - import serials are memoised per symbol (SyncedProvider.GetIdForKey).*)
(* What the code does BEFORE the first build is modelled as it is: the     *)
(* graph is empty, Validate validates zero controllers (no diagnostics),   *)
(* GenerateIntermediate hands out metadata with no controllers, no models, *)
(* no imports, and assigns no serial.                                      *)
(*                                                                         *)
(*   - every build walks the files the controller globs matched, not the   *)
(*     files of packages loaded since (PackagesFacade.GetAllSourceFiles).  *)
(* The four BOOLEAN constants switch single mechanisms off; TLC then       *)
(* shows the corresponding invariant violated (vacuity guards).            *)
(***************************************************************************)
EXTENDS Naturals, Sequences, TLC

CONSTANTS MaxLen,            \* bound on the length of a history
          GraphIdempotent,   \* a repeated GenerateGraph leaves the graph as it is
          CacheTransparent,  \* metadata computed over cache hits equals freshly computed metadata
          SerialsMemoised,   \* a symbol keeps the import serial it was given first
          ScopeFixed,        \* a build visits the files controllerGlobs matched - not whatever has been loaded since
          TouchInvisible     \* a file saved again with the same bytes (a later modification time) is the same file to the session

PipeCalls == {"GenerateGraph", "Validate", "GenerateIntermediate", "Run"}
\* "Touch" is the environment's step, not the pipeline's: every source file is saved again, byte for byte, a few seconds later
\* (an editor re-save, git checkout, touch).  The project is unchanged; the session must not notice.
Calls     == PipeCalls \cup {"GenerateSpec", "Touch"}

VARIABLES hist,   \* the calls made so far on this pipeline
          st,     \* the session's state, a record (see New)
          out     \* what each call handed out / left behind, a sequence of records (see Out)
vars == <<hist, st, out>>

\* state of a brand-new pipeline
New == [built   |-> FALSE,        \* has the graph been built
        builds  |-> 0,            \* number of graph builds (capped at 2: only "again" matters)
        graph   |-> "empty",      \* "empty" | "G0" | "grown"
        loaded  |-> FALSE,        \* packages beyond the globs have been loaded (whole, lazily, for imported model types)
        warm    |-> FALSE,        \* MetadataCache populated: the next visit is served from it
        serials |-> "unassigned", \* "unassigned" | "S0" | "drifted"
        gi      |-> 0,            \* number of reductions done on a built graph (capped at 2)
        held    |-> "none",       \* metadata the caller holds: "none" | "Fempty" | "F0" | "F1"
        touched |-> FALSE,        \* the files were re-saved (same bytes) since the last build
        restamped |-> FALSE]      \* some build has re-visited re-saved files

Cap2(n) == IF n >= 2 THEN 2 ELSE n

\* --- the three stages ---------------------------------------------------------------------------------------
\* the first build resolves the routes' types and thereby loads the packages they live in; a later build that walked those
\* packages' files too would meet declarations the first one never saw
\* After a Touch the files the next build re-visits carry a later modification time in their version stamps: the graph is then
\* no longer comparable node by node ("G0t": same project, not larger than the first build's graph) - what the session hands
\* out (metadata, serials, diagnostics, document) stays the fresh session's.
Build(s) == [s EXCEPT !.built = TRUE, !.builds = Cap2(s.builds + 1), !.warm = TRUE, !.loaded = TRUE, !.touched = FALSE,
                      !.graph = IF ~s.built THEN "G0"
                                ELSE IF GraphIdempotent /\ (ScopeFixed \/ ~s.loaded)
                                     THEN (IF s.touched /\ s.graph = "G0" THEN "G0t" ELSE s.graph)
                                     ELSE "grown",
                      !.restamped = s.restamped \/ (s.built /\ s.touched)]

\* token of the metadata a reduction of state s hands out, and the serial map after it
SerialsAfter(s) == IF ~s.built THEN s.serials
                   ELSE IF s.serials = "unassigned" THEN "S0"
                   ELSE IF SerialsMemoised /\ (TouchInvisible \/ ~s.restamped) THEN s.serials ELSE "drifted"
FlatOf(s) == IF ~s.built THEN "Fempty"
             ELSE IF s.graph \in {"G0", "G0t"} /\ SerialsAfter(s) = "S0" /\ (CacheTransparent \/ s.builds < 2) THEN "F0"
             ELSE "F1"
Reduce(s) == [s EXCEPT !.serials = SerialsAfter(s), !.held = FlatOf(s), !.gi = IF s.built THEN Cap2(s.gi + 1) ELSE s.gi]

DiagOf(s) == IF ~s.built THEN "Dempty" ELSE IF s.graph \in {"G0", "G0t"} THEN "D0" ELSE "D1"

\* --- one call -------------------------------------------------------------------------------------------------
Enabled(s, c) == c \in PipeCalls \/ (c = "GenerateSpec" /\ s.held # "none") \/ (c = "Touch" /\ s.built /\ ~s.touched)

Step(s, c) ==
    CASE c = "GenerateGraph"        -> Build(s)
      [] c = "Validate"             -> s
      [] c = "GenerateIntermediate" -> Reduce(s)
      [] c = "Run"                  -> Reduce(Build(s))      \* GenerateGraph; Validate; GenerateIntermediate (accepted project)
      [] c = "GenerateSpec"         -> [s EXCEPT !.held = "none"]
      [] c = "Touch"                -> [s EXCEPT !.touched = TRUE]

\* what the call hands out (flat, diag, spec: "none" when the call returns no such thing) and leaves behind (graph, serials)
Out(s, c) ==
    LET t == Step(s, c) IN
    [call    |-> c,
     flat    |-> IF c \in {"GenerateIntermediate", "Run"} THEN t.held ELSE "none",
     diag    |-> IF c = "Validate" THEN DiagOf(s) ELSE "none",
     spec    |-> IF c # "GenerateSpec" THEN "none"
                 ELSE IF s.held = "F0" THEN "P0" ELSE IF s.held = "Fempty" THEN "Pempty" ELSE "P1",
     graph   |-> t.graph,
     serials |-> IF c \in {"GenerateIntermediate", "Run"} /\ t.built THEN t.serials ELSE "none"]

Init == hist = <<>> /\ st = New /\ out = <<>>

Call(c) == /\ Len(hist) < MaxLen
           /\ Enabled(st, c)
           /\ hist' = Append(hist, c)
           /\ out'  = Append(out, Out(st, c))
           /\ st'   = Step(st, c)

Next == \E c \in Calls : Call(c)
Spec == Init /\ [][Next]_vars

\* --- the property -----------------------------------------------------------------------------------------------
\* every metadata handed out over a built graph is the fresh session's; a history ending in Run always hands it out
C19_FlatStable ==
    /\ \A i \in DOMAIN out : out[i].flat \in {"none", "Fempty", "F0"}
    /\ \A i \in DOMAIN out : out[i].call = "Run" => out[i].flat = "F0"
    /\ \A i \in DOMAIN out : (out[i].call = "GenerateIntermediate" /\ \E j \in 1..(i-1) : hist[j] \in {"GenerateGraph", "Run"}) => out[i].flat = "F0"
\* the graph is empty until the first build and the first build's graph ever after
C19_GraphStable ==
    /\ st.graph \in (IF st.built THEN {"G0", "G0t"} ELSE {"empty"})
    /\ \A i \in DOMAIN out : \A j \in DOMAIN out : (i < j /\ out[i].graph # "empty") => out[j].graph \in {out[i].graph, "G0t"}
\* serials, once assigned, never change and are the fresh session's
C19_SerialsStable ==
    /\ st.serials \in {"unassigned", "S0"}
    /\ \A i \in DOMAIN out : out[i].serials \in {"none", "S0"}
\* diagnostics and OpenAPI bytes are the fresh session's too
C19_DerivedStable ==
    /\ \A i \in DOMAIN out : out[i].diag \in {"none", "Dempty", "D0"} /\ out[i].spec \in {"none", "Pempty", "P0"}
    /\ \A i \in DOMAIN out : (out[i].call = "Validate" /\ \E j \in 1..(i-1) : hist[j] \in {"GenerateGraph", "Run"}) => out[i].diag = "D0"
C19_SerialsNeverChange == [][st.serials # "unassigned" => st'.serials = st.serials]_vars

\* --- what an observer of the real pipeline must see, relative to a fresh session -----------------------------------
\* Each field lists only the equalities the token fixes (a harness measures them; a field that is absent is not fixed).
ExpFlat(t) == CASE t = "none"   -> [returned |-> FALSE]
                [] t = "Fempty" -> [returned |-> TRUE, empty |-> TRUE]
                [] t = "F0"     -> [returned |-> TRUE, empty |-> FALSE, eqFresh |-> TRUE, identsEqFresh |-> TRUE]
                [] OTHER        -> [returned |-> TRUE, eqFresh |-> FALSE]
ExpDiag(t) == CASE t = "none"   -> [returned |-> FALSE]
                [] t = "Dempty" -> [returned |-> TRUE, zero |-> TRUE]
                [] t = "D0"     -> [returned |-> TRUE, eqFresh |-> TRUE]
                [] OTHER        -> [returned |-> TRUE, eqFresh |-> FALSE]
ExpSpec(t) == CASE t = "none"   -> [returned |-> FALSE]
                [] t = "Pempty" -> [returned |-> TRUE]
                [] t = "P0"     -> [returned |-> TRUE, eqFresh |-> TRUE]
                [] OTHER        -> [returned |-> TRUE, eqFresh |-> FALSE]
ExpGraph(t) == CASE t = "empty" -> [empty |-> TRUE]
                 [] t = "G0"    -> [empty |-> FALSE, eqFresh |-> TRUE, eqFirst |-> TRUE, notGrown |-> TRUE]
                 [] t = "G0t"   -> [empty |-> FALSE, notGrown |-> TRUE]
                 [] OTHER       -> [empty |-> FALSE, eqFirst |-> FALSE]
\* (every route has at least one response, hence at least one serial: projects without routes are not used)
ExpSerials(t) == CASE t = "none" -> [assigned |-> FALSE]
                   [] t = "S0"   -> [assigned |-> TRUE, eqFresh |-> TRUE, eqFirst |-> TRUE]
                   [] OTHER      -> [assigned |-> TRUE, eqFirst |-> FALSE]
Expect(o) == [call |-> o.call, failed |-> FALSE, flat |-> ExpFlat(o.flat), diag |-> ExpDiag(o.diag), spec |-> ExpSpec(o.spec),
              graph |-> ExpGraph(o.graph), serials |-> ExpSerials(o.serials)]
=============================================================================
