SPECIFICATION Spec
CONSTANTS
  CfgChoices <- CfgsC06one
  CtrlChoices <- CtrlsC06
  MethodChoices <- MethodsC06resp
  TypeChoices <- StdTypes
  MaxCtrls = 1
  MaxMethods = 1
  SortBeforeReduce = TRUE
INVARIANTS EmitCase
CHECK_DEADLOCK FALSE
