SPECIFICATION SimSpec
CONSTANTS
  LineSet <- AllSingle
  MaxLines = 6
  GreedyProps = FALSE
INVARIANTS C16_Partition C16_Order C16_ErrorIffMalformed Emit
CHECK_DEADLOCK FALSE
