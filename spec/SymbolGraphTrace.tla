------------------------- MODULE SymbolGraphTrace -------------------------
(***************************************************************************)
(* Direction B for C17: a trace recorded from the real symboldg.SymbolGraph *)
(* (one NDJSON line per public call: the operation, whether it reported an *)
(* error, and the projection of every public query answer after it) is     *)
(* accepted iff it is a behaviour of SymbolGraph: each line must be        *)
(* explained by the spec action of that operation AND the logged answers   *)
(* must equal the derived views of the spec state after the action.        *)
(* Many histories are concatenated; a "Reset" line starts a new graph.     *)
(***************************************************************************)
EXTENDS SymbolGraph

Trace == ndJsonDeserialize("graph_trace.ndjson")

VARIABLE l
tvars == <<vars, l>>

ToS(x) == {x[i] : i \in DOMAIN x}

ObsEq(js, N, E) ==
    LET present == {x \in Keys : Present(N, x)} IN
    /\ \A k \in Keys : js.nodes[k].kind = N[k].kind /\ js.nodes[k].ver = N[k].ver
    /\ \A k \in Keys : ToS(js.out[k]) = {ERec(e) : e \in Out(E, k)}
    /\ \A k \in Keys : ToS(js["in"][k]) = {ERec(e) : e \in In(E, k)}
    /\ DOMAIN js.children = present /\ DOMAIN js.parents = present /\ DOMAIN js.desc = present
    /\ \A k \in present : \A kf \in KF :
          /\ ToS(js.children[k][kf]) = Children(N, E, k, kf)
          /\ ToS(js.parents[k][kf])  = Parents(N, E, k, kf)
          /\ ToS(js.desc[k][kf])     = Descendants(N, E, k, kf)
    /\ \A kd \in DOMAIN js.bykind : ToS(js.bykind[kd]) = ByKind(N, kd)

Do(o) ==
    CASE o.op \in {"AddPrimitive", "AddSpecial"} -> AddBuiltin(o.k)
      [] o.op = "AddAlias"   -> AddAlias(o.k)
      [] o.op = "AddConst"   -> AddConst(o.k)
      [] o.op = "AddStruct"  -> AddStruct(o.k, o.set)
      [] o.op = "AddEnum"    -> AddEnum(o.k, o.set)
      [] o.op = "AddField"   -> AddField(o.k, o.to)
      [] o.op = "AddEdge"    -> AddEdge(o.k, o.to, o.kind)
      [] o.op = "RemoveEdge" -> RemoveEdge(o.k, o.to, o.kind)
      [] o.op = "RemoveNode" -> RemoveNode(o.k)
      [] o.op = "Touch"      -> Touch(o.k)

TraceInit == Init /\ l = 1

TraceReset ==
    /\ l <= Len(Trace) /\ Trace[l].ev = "Reset"
    /\ nodes' = [k \in Keys |-> Absent] /\ edges' = {} /\ ver' = [k \in DKeys |-> 1]
    /\ hist' = <<>> /\ lastErr' = FALSE
    /\ ObsEq(Trace[l].obs, nodes', edges')
    /\ l' = l + 1

TraceOp ==
    /\ l <= Len(Trace) /\ Trace[l].ev = "Op"
    /\ "panic" \notin DOMAIN Trace[l]
    /\ Do(Trace[l].op)
    /\ lastErr' = Trace[l].err
    /\ ObsEq(Trace[l].obs, nodes', edges')
    /\ l' = l + 1

TraceNext == TraceReset \/ TraceOp
TraceSpec == TraceInit /\ [][TraceNext]_tvars

TraceAccepted == TLCGet("stats").diameter - 1 = Len(Trace)
=============================================================================
