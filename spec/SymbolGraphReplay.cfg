SPECIFICATION ReplaySpec
CONSTANTS
  DKeys = {"k1","k2","k3"}
  UKeys = {"string","error"}
  FreeKinds = {"ty","ref"}
  MaxDepth = 1000000
  MaxSet = 2
INVARIANTS EmitStep C17_InOutAgree C17_ViewsAgree
POSTCONDITION ReplayDone
CHECK_DEADLOCK FALSE
