SPECIFICATION Spec
CONSTANTS
  CfgChoices <- CfgsC10
  CtrlChoices <- CtrlsC10core
  MethodChoices <- MethodsC18pair
  TypeChoices <- StdTypes
  MaxCtrls = 1
  MaxMethods = 2
  SortBeforeReduce = TRUE
INVARIANTS EmitCase
CHECK_DEADLOCK FALSE
