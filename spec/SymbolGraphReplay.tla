------------------------- MODULE SymbolGraphReplay -------------------------
(***************************************************************************)
(* Forces SymbolGraph through one given history (graph_ops.ndjson, one     *)
(* operation record per line) and emits the expected observation after     *)
(* every operation.  Used to confirm a candidate violation in isolation    *)
(* and by `./check replay`.                                                *)
(***************************************************************************)
EXTENDS SymbolGraph

Ops == ndJsonDeserialize("graph_ops.ndjson")

Do(o) ==
    CASE o.op \in {"AddPrimitive", "AddSpecial"} -> AddBuiltin(o.k)
      [] o.op = "AddAlias"   -> AddAlias(o.k)
      [] o.op = "AddConst"   -> AddConst(o.k)
      [] o.op = "AddStruct"  -> AddStruct(o.k, o.set)
      [] o.op = "AddEnum"    -> AddEnum(o.k, o.set)
      [] o.op = "AddField"   -> AddField(o.k, o.to)
      [] o.op = "AddEdge"    -> AddEdge(o.k, o.to, o.kind)
      [] o.op = "RemoveEdge" -> RemoveEdge(o.k, o.to, o.kind)
      [] o.op = "RemoveNode" -> RemoveNode(o.k)
      [] o.op = "Touch"      -> Touch(o.k)

ReplayNext == Len(hist) < Len(Ops) /\ Do(Ops[Len(hist) + 1])
ReplaySpec == Init /\ [][ReplayNext]_vars
ReplayDone == TLCGet("stats").diameter - 1 = Len(Ops)
=============================================================================
