SPECIFICATION SimSpec
CONSTANTS
  DKeys = {"k1","k2","k3"}
  UKeys = {"string","error"}
  FreeKinds = {"ty","ref"}
  MaxDepth = 1000
  MaxSet = 2
INVARIANTS EmitStep
CHECK_DEADLOCK FALSE
