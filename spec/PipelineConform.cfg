SPECIFICATION CSpec
CONSTANTS
  CfgChoices = {}
  CtrlChoices = {}
  MethodChoices = {}
  TypeChoices = {}
  MaxCtrls = 0
  MaxMethods = 0
  SortBeforeReduce = TRUE
POSTCONDITION Consumed
CHECK_DEADLOCK FALSE
