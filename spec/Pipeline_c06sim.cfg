SPECIFICATION SimSpec
CONSTANTS
  CfgChoices <- CfgsC06
  CtrlChoices <- CtrlsC06
  MethodChoices <- MethodsC06
  TypeChoices <- StdTypes
  MaxCtrls = 1
  MaxMethods = 3
  SortBeforeReduce = TRUE
INVARIANTS EmitCase
CHECK_DEADLOCK FALSE
