SPECIFICATION Spec
CONSTANTS
  CfgChoices <- CfgsC10
  CtrlChoices <- CtrlsC10twin
  MethodChoices <- MethodsC10twin
  TypeChoices <- TwinTypeSets
  MaxCtrls = 2
  MaxMethods = 1
  SortBeforeReduce = TRUE
INVARIANTS EmitCase
CHECK_DEADLOCK FALSE
