"""Family F6 — the configuration document, property C20 (see spec/Config.tla, harness cfgcheck.go).

  1. TLC model-checks the session machine of Config.tla on each authoring space (single edits of every field, every subset of
     the optional fields, engines x versions x permission strings x glob sets; thorough: all double edits) with the properties
     C20_ConfigFirst (action property), C20_RejectedIsFinal, C20_OnlyValidProceeds, C20_Honoured, and shows that the as-built
     variant (permissions not applied to an existing file) violates C20_Honoured (vacuity guard).  The same runs print one CASE
     per submitted document: the document, the author's edits, validity, the fields at fault, the expected outputs.
  2. The Go harness builds the document, runs the real CLI in a fresh process per case and records exit status, messages, hook
     trace, file-system delta, modes and the projected artifacts; cfg-judge compares with the CASE (direction A).
  3. Every candidate class is re-executed in isolation (fresh directory, fresh process) before it is reported.
"""
import concurrent.futures, json, os, random, re, shutil, subprocess, time, collections
from . import common as c

PROP = "C20"


def cfg_run(v, g, cases, out, work):
    p = subprocess.run([v, "cfg-run", "--cases", cases, "--out", out, "--gleece", g, "--repo", c.REPO, "--work", work, "--jobs", str(c.NCPU)],
                       stdout=subprocess.PIPE, stderr=subprocess.STDOUT, text=True)
    if p.returncode != 0:
        raise c.Trouble("cfg-run failed: " + p.stdout[-2000:])


def cfg_judge(v, records, out):
    p = subprocess.run([v, "cfg-judge", "--records", records, "--out", out], stdout=subprocess.PIPE, stderr=subprocess.STDOUT, text=True)
    if p.returncode != 0:
        raise c.Trouble("cfg-judge failed: " + p.stdout[-2000:])
    j = json.load(open(out))
    if j["trouble"]:
        raise c.Trouble("harness trouble: " + "; ".join(j["trouble"][:3]))
    return j


def coarse(what):
    text = what.split(" :: ", 1)[-1]
    return re.sub(r"\[[^\]]*\]|\([^)]*\)|[0-9]+|'[^']*'|\"[^\"]*\"", "#", text)[:90]


def case_id(line):
    import hashlib
    return "k" + hashlib.sha256(json.loads(line).encode()).hexdigest()[:12]


def stratified(lines, n, rng):
    """A sample that touches every (permission string, pre-existing output, OpenAPI version, optional-section subset size) combination
    before it repeats one: the facts the honoured-in-output clauses depend on."""
    strata = collections.OrderedDict()
    for l in lines:
        try:
            cs = json.loads(json.loads(l)[5:])
        except Exception:
            cs = {}
        vals = {p_["path"]: (p_.get("op"), p_.get("value")) for p_ in cs.get("patches", [])}
        key = (str(vals.get("routesConfig.outputFilePerms")), str(cs.get("stale")), str(vals.get("openapiGeneratorConfig.openapi")),
               str(vals.get("openapiGeneratorConfig.info.contact")), str(vals.get("openapiGeneratorConfig.info.license")))
        strata.setdefault(key, []).append(l)
    groups = list(strata.values())
    rng.shuffle(groups)
    for g_ in groups:
        rng.shuffle(g_)
    picked, i = [], 0
    while len(picked) < n and any(groups):
        g_ = groups[i % len(groups)]
        if g_:
            picked.append(g_.pop())
        i += 1
    return picked


def is_known(known, what):
    for k in known:
        if k.get("match") and re.search(k["match"], what):
            return k
    return None


def run(tier):
    t0 = time.time()
    seed = c.seed()
    rng = random.Random(seed)
    thorough = tier == "thorough"
    v = c.build_harness()
    g = c.build_gleece()
    sc = c.scratch()
    cov = {"models": {}, "emission": []}

    # 1. model checking + emission (cfg, how many cases to take; None = all)
    plan = [("Config_single.cfg", None), ("Config_opt.cfg", None if thorough else 36), ("Config_matrix.cfg", None if thorough else 44)]
    if thorough:
        plan.append(("Config_double.cfg", 700))

    def emit(item):
        cfgname, take = item
        out = os.path.join(sc, cfgname + ".cases")
        r = c.tlc("ConfigMC", cfgname, workers=4, out_file=out, timeout=1500)
        c.tlc_model_ok(r, "Config/" + cfgname)
        return item, out, r

    with concurrent.futures.ThreadPoolExecutor(max_workers=4) as ex:
        fut_asbuilt = ex.submit(c.tlc, "ConfigMC", "Config_asbuilt.cfg", 2, None, 600)
        emitted = list(ex.map(emit, plan))
        r2 = fut_asbuilt.result()
    if "C20_Honoured" not in r2.violated:
        raise c.Trouble("the as-built model (permissions not applied to an existing routes file) was expected to violate C20_Honoured (vacuity guard):\n" + r2.out[-1500:])
    cov["models"]["Config_asbuilt.cfg"] = {"violates": "C20_Honoured", "counterexample_len": r2.depth}
    cases = os.path.join(sc, "cfg.cases")
    lines_by_id = {}
    with open(cases, "w") as f:
        for (cfgname, take), out, r in emitted:
            # (several TLC workers print in any order: sort, so that the sample is a function of the seed alone)
            lines = sorted(l for l in open(out) if l.startswith('"CASE '))
            total = len(lines)
            if take is not None and len(lines) > take:
                lines = stratified(lines, take, rng)
            if not lines:
                raise c.Trouble("no cases from " + cfgname)
            for l in lines:
                lines_by_id[case_id(l)] = l
            f.writelines(lines)
            cov["models"][cfgname] = {"states": r.distinct, "transitions": r.generated, "documents": total}
            cov["emission"].append({"cfg": cfgname, "documents": total, "run": len(lines)})
            os.remove(out)
    c.log("Config.tla: %s; properties hold on every authoring space, the as-built permission handling violates C20_Honoured as expected" %
          ", ".join("%s %d docs/%d states" % (k.replace("Config_", "").replace(".cfg", ""), m.get("documents", 0), m.get("states", 0)) for k, m in cov["models"].items() if "states" in m))

    # 2. the real CLI
    rec = os.path.join(sc, "cfg.rec")
    cfg_run(v, g, cases, rec, os.path.join(sc, "cfgwork"))
    j = cfg_judge(v, rec, os.path.join(sc, "cfg.judged"))
    if j["cases"] == 0 or j["valid"] == 0 or j["invalid"] == 0:
        raise c.Trouble("vacuous run: %d cases, %d valid, %d invalid" % (j["cases"], j["valid"], j["invalid"]))
    c.log("direction A: %d documents run through the CLI (%d the specification accepts, %d it rejects), %d findings before confirmation" %
          (j["cases"], j["valid"], j["invalid"], len(j["findings"])))

    # 3. confirmation in isolation: recorded findings per signature, everything else per class of finding text
    known = c.known_for(PROP)
    classes = collections.OrderedDict()
    for f in j["findings"]:
        k = is_known(known, f["what"])
        classes.setdefault(("known", k["signature"]) if k else ("new", coarse(f["what"])), []).append(f)
    violations, known_hits = [], []

    def confirm(f, same):
        cid = f["id"]
        one = os.path.join(sc, "one-%s.cases" % cid)
        open(one, "w").write(lines_by_id[cid])
        rec1 = os.path.join(sc, "one-%s.rec" % cid)
        cfg_run(v, g, one, rec1, os.path.join(sc, "cfgwork1"))
        j1 = cfg_judge(v, rec1, rec1 + ".json")
        again = [x for x in j1["findings"] if same(x)]
        if not again:
            raise c.Trouble("candidate on case %s was not reproduced in isolation: %s" % (cid, f["what"]))
        return again[0], one

    new_classes = [(key, fs) for key, fs in classes.items() if key[0] == "new"]
    for (kind, sig), fs in [(key, fs) for key, fs in classes.items() if key[0] == "known"]:
        k = [x for x in known if x["signature"] == sig][0]
        again, _ = confirm(fs[0], lambda x: is_known(known, x["what"]) is not None and is_known(known, x["what"])["signature"] == sig)
        known_hits.append("%s (%d documents in this run, e.g. %s)" % (k["what"], len(fs), again["what"].split(" :: ")[0]))
    for (kind, sig), fs in new_classes[:10]:
        again, one = confirm(fs[0], lambda x: coarse(x["what"]) == sig and not is_known(known, x["what"]))
        cid = fs[0]["id"]
        keep = os.path.join(c.REPLAYS, "%s-%s.cases" % (PROP, cid))
        os.makedirs(c.REPLAYS, exist_ok=True)
        shutil.copy(one, keep)
        path = c.save_replay(PROP, {"property": PROP, "family": "config", "case_file": keep, "case_id": cid, "what": again["what"], "more": again.get("more", []),
                                    "documents_in_class": len(fs)})
        violations.append(("%s   [%d documents of this class]" % (again["what"], len(fs)), path))

    cov.update({"states": sum(m.get("states", 0) for m in cov["models"].values()), "transitions": sum(m.get("transitions", 0) for m in cov["models"].values()),
                "traces_validated_against_impl": j["cases"], "evaluations": j["evaluated"], "distinct_nontrivial": j["nontrivial"],
                "rule": "one evaluation per distinct configuration document run through `gleece generate spec-and-routes` in a fresh process; "
                        "non-trivial = document that differs from the base document by at least one edit (corrupted field, removed/added optional field, other engine/version/permissions/globs)",
                "samples": j["samples"][:4], "documents_valid": j["valid"], "documents_invalid": j["invalid"], "by_space": j["byKind"],
                "finding_classes": {"%s:%s" % k: len(x) for k, x in classes.items()},
                "exhaustive": True})
    c.write_evidence(PROP, tier, "model_checking", cov, time.time() - t0,
                     ["value tokens: URL, e-mail, first-character and existing-directory predicates are tables over the tokens in use (spec/Config.tla); permission strings and glob patterns are computed structurally",
                      "one fixed project (three controllers in three files of two packages); the CLI runs under umask 022 and file modes are compared literally with the configured permission string",
                      "a message 'names' a field when it contains the Go field name, the dotted path or a distinctive JSON key as a word",
                      "cross-references that no declared constraint covers (default security naming an undeclared scheme, apiKey scheme without name/in) are outside the explored space",
                      "single-edit, optional-subset and matrix spaces are exhaustive; double edits are sampled in the thorough tier"], len(violations))
    c.finish(PROP, violations, known_hits)


def replay(path):
    data = json.load(open(path))
    v = c.build_harness()
    g = c.build_gleece()
    sc = c.scratch()
    rec = os.path.join(sc, "replay.rec")
    cfg_run(v, g, data["case_file"], rec, os.path.join(sc, "cfgworkr"))
    j = cfg_judge(v, rec, rec + ".json")
    known = c.known_for(PROP)
    found = [f for f in j["findings"] if not is_known(known, f["what"])]
    if not found:
        print("replay: document handled as the property demands on this tree")
        return 0
    print("VIOLATION property=%s replay=%s" % (PROP, path))
    print("  " + found[0]["what"])
    return 1
