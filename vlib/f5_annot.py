"""Family F5 — annotation comments, property C16 (see spec/Annotations.tla)."""
import json, os, subprocess, time
from . import common as c

PROP = "C16"
KNOWN_SIG = "greedy-props-swallow-description"


def _replay(v, cases, out):
    p = subprocess.run([v, "annot-replay", "--cases", cases, "--out", out], stdout=subprocess.PIPE, stderr=subprocess.STDOUT, text=True)
    if p.returncode != 0:
        raise c.Trouble("annot-replay failed: " + p.stdout[-2000:])
    return json.load(open(out))


def confirm(v, case_line):
    sc = c.scratch()
    p = os.path.join(sc, "one-case-%d.txt" % int(time.time() * 1e6))
    open(p, "w").write(case_line + "\n")
    rep = _replay(v, p, p + ".json")
    return rep["mismatches"][0] if rep["mismatches"] else None


def run(tier):
    t0 = time.time()
    seed = c.seed()
    v = c.build_harness()
    sc = c.scratch()
    thorough = tier == "thorough"
    cov = {"samples": [], "runs": []}
    runs = [("Annotations_single.cfg", None, None), ("Annotations_blocks4.cfg" if thorough else "Annotations_blocks.cfg", None, None),
            ("Annotations_sim.cfg", "num=%d" % (30000 if thorough else 1500), 7)]
    states = trans = replayed = nontrivial = 0
    candidates = []
    for cfgname, sim, depth in runs:
        out = os.path.join(sc, cfgname + ".cases")
        r = c.tlc("AnnotationsMC", cfgname, workers=1, out_file=out, simulate=sim, depth=depth, seed_=seed, timeout=3000)
        if sim is None:
            c.tlc_model_ok(r, "Annotations/" + cfgname)     # design-level invariants hold on every block
            states += r.distinct
            trans += r.generated
        elif r.rc == 124 or r.error or r.violated:
            raise c.Trouble("TLC run %s failed:\n%s" % (cfgname, r.out[-2000:]))
        rep = _replay(v, out, out + ".json")
        if rep["cases"] == 0:
            raise c.Trouble("no cases from " + cfgname)
        c.log("direction A %s: %d comment blocks parsed by the real AnnotationHolder, %d differ (%d explained by the as-built reading)" %
              (cfgname, rep["cases"], len(rep["mismatches"]), rep["asbuilt_hits"]))
        replayed += rep["cases"]
        nontrivial += rep["nontrivial"]
        cov["samples"] += rep["samples"][:2]
        cov["runs"].append({"cfg": cfgname, "blocks": rep["cases"], "with_props_or_description": rep["nontrivial"], "asbuilt_hits": rep["asbuilt_hits"]})
        # keep the raw CASE lines of the shortest mismatches for confirmation
        want = {}
        for m in sorted(rep["mismatches"], key=lambda m: (len(m["lines"]), sum(len(x) for x in m["lines"]))):
            want.setdefault(m["class"], [])
            if len(want[m["class"]]) < 3:
                want[m["class"]].append(m["lines"])
        if want:
            targets = [json.dumps(l) for ls in want.values() for l in ls]
            with open(out) as f:
                for line in f:
                    if not line.startswith('"CASE '):
                        continue
                    payload = json.loads(json.loads(line)[5:])
                    if json.dumps(payload["lines"]) in targets:
                        candidates.append(line.rstrip("\n"))
                        targets.remove(json.dumps(payload["lines"]))
                        if not targets:
                            break
        os.remove(out)

    violations, known_hits = [], []
    known = [f for f in c.known_for(PROP) if f.get("signature") == KNOWN_SIG]
    said_known = False
    for line in candidates:
        m = confirm(v, line)
        if m is None:
            raise c.Trouble("candidate not reproduced in isolation: " + line[:300])
        if m["class"] == "asbuilt" and known:
            if not said_known:
                known_hits.append(known[0]["what"])
                said_known = True
            continue
        path = c.save_replay(PROP, {"property": PROP, "family": "annot", "case_line": line, "lines": m["lines"], "what": m["what"]})
        violations.append(("comment block %s: %s" % (json.dumps(m["lines"]), m["what"]), path))

    cov["states"], cov["transitions"] = states, trans
    cov["traces_validated_against_impl"] = replayed
    cov["evaluations"] = replayed
    cov["distinct_nontrivial"] = nontrivial
    cov["rule"] = ("every single line over the token tables (6 names x 7 values x 10 property objects x 6 descriptions, 11 free-text forms), every block of "
                   "up to 3 (thorough: 4) lines over a reduced line set, seeded random blocks of up to 6 lines over the full tables; "
                   "non-trivial = block with a properties object or a description")
    cov["exhaustive"] = True
    c.write_evidence(PROP, tier, "exploration", cov, time.time() - t0,
                     ["a finite token grammar, not all strings: the JSON5 texts are paired with their value as data in the specification (trusted)",
                      "<U1> is substituted by a fixed non-ASCII string on both sides", "comment blocks are the doc comment of a function in a file parsed by go/parser",
                      "lines whose value is empty or outside the documented alphabet, or whose braces are unbalanced, are treated as 'not of the form'"],
                     len(violations))
    c.finish(PROP, violations, known_hits)


def replay(path):
    v = c.build_harness()
    data = json.load(open(path))
    m = confirm(v, data["case_line"])
    if m is None:
        print("replay: block parsed as the property demands on this tree")
        return 0
    print("VIOLATION property=%s replay=%s" % (PROP, path))
    print("  " + m["what"])
    return 1
