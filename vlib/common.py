"""Shared plumbing for /verif/check: environment, harness build, TLC runs, evidence, known findings, verdicts.

Exit codes: 0 property held on everything explored (KNOWN-FINDING lines may be printed);
            1 a reproduced violation of the real code that known_findings.json does not list (VIOLATION line printed);
            2 machinery trouble (TLC error on the model alone, build failure, timeout, vacuous run) — never a verdict.
"""
import json, os, re, shutil, subprocess, sys, tempfile, time, hashlib, atexit

VERIF = os.path.dirname(os.path.dirname(os.path.abspath(__file__)))
REPO = os.environ.get("VERIF_REPO", "/repo")
SPEC = os.path.join(VERIF, "spec")
# evidence is about /repo itself: a run pointed at another tree (seeded-defect confirmation, VERIF_REPO) writes its evidence and
# replays elsewhere so that the committed evidence always comes from /repo
_FOREIGN = os.path.realpath(REPO) != "/repo"
EVID = os.environ.get("VERIF_EVID") or (os.path.join("/var/tmp", "verif-foreign-evidence") if _FOREIGN else os.path.join(VERIF, "evidence"))
REPLAYS = os.path.join("/var/tmp", "verif-foreign-replays") if _FOREIGN else os.path.join(VERIF, "replays")
NCPU = os.cpu_count() or 4


def seed():
    try:
        return int(os.environ.get("VERIF_SEED", "1"))
    except ValueError:
        return 1


def goenv():
    e = dict(os.environ)
    e["GOFLAGS"] = "-mod=mod"
    e["GOPROXY"] = "off"
    e.pop("GOTOOLCHAIN", None)   # the repo needs the cached go1.24.7 toolchain switch (GOTOOLCHAIN=auto)
    e.pop("GOSUMDB", None)
    return e


_scratch = None


def scratch():
    """Per-invocation scratch directory outside /repo and /verif, removed on exit."""
    global _scratch
    if _scratch is None:
        base = os.environ.get("VERIF_SCRATCH_BASE", "/var/tmp")
        os.makedirs(base, exist_ok=True)
        _scratch = tempfile.mkdtemp(prefix="verif-", dir=base)
        if not os.environ.get("VERIF_KEEP"):
            atexit.register(lambda: shutil.rmtree(_scratch, ignore_errors=True))
    return _scratch


class Trouble(Exception):
    """Machinery trouble: exit 2."""


def run(cmd, cwd=None, env=None, timeout=None, check=True, stdout=subprocess.PIPE, stderr=subprocess.STDOUT):
    p = subprocess.run(cmd, cwd=cwd, env=env, timeout=timeout, stdout=stdout, stderr=stderr, text=True)
    if check and p.returncode != 0:
        raise Trouble("command failed (%d): %s\n%s" % (p.returncode, " ".join(cmd) if isinstance(cmd, list) else cmd, (p.stdout or "")[-4000:]))
    return p


def build_harness(tags="verif"):
    """Builds harness/cmd/vcheck against REPO's *current working tree* (replace directive), hooks enabled."""
    sc = scratch()
    out = os.path.join(sc, "vcheck")
    if os.path.exists(out):
        return out
    modfile = os.path.join(sc, "harness.go.mod")
    src = open(os.path.join(REPO, "go.mod")).read()
    src = re.sub(r"^module .*$", "module verif/harness", src, count=1, flags=re.M)
    src += "\nrequire github.com/gopher-fleece/gleece/v2 v2.0.0\nreplace github.com/gopher-fleece/gleece/v2 => %s\n" % REPO
    open(modfile, "w").write(src)
    shutil.copy(os.path.join(REPO, "go.sum"), os.path.join(sc, "harness.go.sum"))
    t0 = time.time()
    run(["go", "build", "-modfile=" + modfile, "-tags", tags, "-o", out, "./cmd/vcheck"],
        cwd=os.path.join(VERIF, "harness"), env=goenv(), timeout=1200)
    log("harness built in %.1fs from %s" % (time.time() - t0, REPO))
    return out


def log(msg):
    print("[verif] " + msg, flush=True)


class TLCResult:
    def __init__(self, out, rc, wall):
        self.out, self.rc, self.wall = out, rc, wall
        m = re.search(r"(\d[\d,]*) states generated, (\d[\d,]*) distinct states found", out)
        self.generated = int(m.group(1).replace(",", "")) if m else 0
        self.distinct = int(m.group(2).replace(",", "")) if m else 0
        m = re.search(r"depth of the complete state graph search is (\d+)", out)
        self.depth = int(m.group(1)) if m else 0
        self.ok = ("Model checking completed. No error has been found" in out) or ("Finished in" in out and "Error:" not in out and "is violated" not in out and "is false" not in out)
        self.violated = re.findall(r"(?:Invariant|Action property|Temporal property) (\S+) (?:is|was) violated", out)
        self.postcondition_false = "Postcondition" in out and "is false" in out or "violated the postcondition" in out.lower()
        self.error = "Error:" in out and not self.violated


def tlc(module, cfg, workers=None, extra=None, timeout=1800, out_file=None, java_opts=None, simulate=None, seed_=None, depth=None, defines=None):
    """Runs TLC on spec/<module>.tla with spec/<cfg> in a scratch copy. Returns TLCResult; stdout optionally streamed to out_file."""
    sc = scratch()
    d = tempfile.mkdtemp(prefix="tlc-", dir=sc)
    for f in os.listdir(SPEC):
        if f.endswith(".tla") or f.endswith(".cfg"):
            shutil.copy(os.path.join(SPEC, f), d)
    for name, content in (defines or {}).items():
        open(os.path.join(d, name), "w").write(content)
    cmd = ["java", "-XX:+UseParallelGC", "-Xss64m"]
    cmd += (java_opts or [])
    cmd += ["-cp", "/opt/veriftools/tla/tla2tools.jar:/opt/veriftools/tla/CommunityModules-deps.jar", "tlc2.TLC"]
    cmd += ["-workers", str(workers or min(NCPU, 8)), "-metadir", os.path.join(d, "meta"), "-config", cfg, "-noGenerateSpecTE"]
    if simulate:
        cmd += ["-simulate", simulate]
        if depth:
            cmd += ["-depth", str(depth)]
    if seed_ is not None:
        cmd += ["-seed", str(seed_)]
    cmd += (extra or [])
    cmd += [module + ".tla"]
    t0 = time.time()
    if out_file:
        with open(out_file, "w") as fo:
            try:
                p = subprocess.run(cmd, cwd=d, stdout=fo, stderr=subprocess.STDOUT, timeout=timeout, text=True)
                rc = p.returncode
            except subprocess.TimeoutExpired:
                rc = 124
        # keep only the non-payload lines in memory
        keep = []
        with open(out_file) as fi:
            for line in fi:
                if not (line.startswith('"CASE ') or line.startswith('"STEP ')):
                    keep.append(line)
        out = "".join(keep)
    else:
        try:
            p = subprocess.run(cmd, cwd=d, stdout=subprocess.PIPE, stderr=subprocess.STDOUT, timeout=timeout, text=True)
            out, rc = p.stdout, p.returncode
        except subprocess.TimeoutExpired as e:
            out, rc = (e.stdout or "") + "\nTIMEOUT", 124
    shutil.rmtree(os.path.join(d, "meta"), ignore_errors=True)
    r = TLCResult(out, rc, time.time() - t0)
    r.dir = d
    return r


def tlc_model_ok(r, what):
    """A counterexample on the model alone is a defect of the specification: machinery trouble, not a verdict on gleece."""
    if r.rc == 124:
        raise Trouble("TLC timed out on %s" % what)
    if not r.ok or r.violated or r.error:
        raise Trouble("TLC did not complete cleanly on %s (model-level problem, not a verdict about gleece):\n%s" % (what, r.out[-3000:]))


# ---------------------------------------------------------------------------------------------------------------
# known findings

def load_known():
    p = os.path.join(VERIF, "known_findings.json")
    if not os.path.exists(p):
        return {"findings": [], "fixed": []}
    return json.load(open(p))


def known_for(prop):
    return [f for f in load_known().get("findings", []) if f["property"] == prop]


# ---------------------------------------------------------------------------------------------------------------
# evidence + verdict

def write_evidence(prop, tier, level, coverage, wall, assumptions, violations=0):
    os.makedirs(EVID, exist_ok=True)
    ev = {"property_id": prop, "tier": tier, "seed": seed(), "level": level, "coverage": coverage,
          "assumptions": assumptions, "wall_s": round(wall, 2), "violations": violations}
    tmp = os.path.join(EVID, prop + ".json.tmp")
    json.dump(ev, open(tmp, "w"), indent=1, sort_keys=False)
    os.replace(tmp, os.path.join(EVID, prop + ".json"))


def save_replay(prop, payload):
    os.makedirs(REPLAYS, exist_ok=True)
    h = hashlib.sha256(json.dumps(payload, sort_keys=True).encode()).hexdigest()[:12]
    p = os.path.join(REPLAYS, "%s-%s.json" % (prop, h))
    json.dump(payload, open(p, "w"), indent=1)
    return p


def finish(prop, violations, known_hits):
    """violations: list of (description, replay_path); known_hits: list of strings."""
    for k in known_hits:
        print("KNOWN-FINDING: property=%s %s" % (prop, k), flush=True)
    if violations:
        for desc, path in violations:
            print("VIOLATION property=%s replay=%s" % (prop, path), flush=True)
            print("  " + desc, flush=True)
        sys.exit(1)
    print("OK property=%s" % prop, flush=True)
    sys.exit(0)


def build_gleece(tags="verif"):
    """Builds the gleece CLI from REPO's current working tree with hooks enabled."""
    sc = scratch()
    out = os.path.join(sc, "gleece-" + tags.replace(",", "_"))
    if os.path.exists(out):
        return out
    t0 = time.time()
    run(["go", "build", "-tags", tags, "-o", out, "."], cwd=REPO, env=goenv(), timeout=1200)
    log("gleece CLI built in %.1fs from %s" % (time.time() - t0, REPO))
    return out
