"""Family F4 — route-conflict detection, property C15 (see spec/PathTrie.tla)."""
import json, os, subprocess, time, collections
from . import common as c

PROP = "C15"


def classify(v, lists):
    """Fresh process runs the real detector on each list; TLC (PathTrieTrace) classifies each call."""
    sc = c.scratch()
    lines = []
    for i, L in enumerate(lists):
        lp = os.path.join(sc, "one-list-%d.json" % i)
        json.dump(L, open(lp, "w"))
        op = lp + ".ev"
        subprocess.run([v, "trie-run", "--list", lp, "--out", op], check=True)
        lines.append(open(op).read())
    r = c.tlc("PathTrieTrace", "PathTrieTrace.cfg", workers=1, defines={"trie_trace.ndjson": "".join(lines)}, timeout=600)
    verdicts = [l.split()[2].strip('"') for l in r.out.splitlines() if l.startswith('"VERDICT')]
    if len(verdicts) != len(lists):
        raise c.Trouble("TLC did not classify every confirmation event:\n" + r.out[-2000:])
    return verdicts


def run(tier):
    t0 = time.time()
    seed = c.seed()
    v = c.build_harness()
    sc = c.scratch()
    thorough = tier == "thorough"
    cov = {"samples": [], "runs": []}

    # 1. design level: the keyed operational model satisfies C15 for every list within the bounds ...
    cfg = "PathTrie_medium.cfg" if thorough else "PathTrie_small.cfg"
    r = c.tlc("PathTrieMC", cfg, workers=min(c.NCPU, 12), timeout=3000)
    c.tlc_model_ok(r, "PathTrie/" + cfg)
    cov["states"], cov["transitions"], cov["model_cfg"] = r.distinct, r.generated, cfg
    c.log("model %s: %d lists, sound/complete/order-free hold for the entry-keyed operational model" % (cfg, r.distinct))
    # ... and the text-keyed one (the code before the fix) does not: TLC itself produces the counterexample
    r2 = c.tlc("PathTrieMC", "PathTrie_asbuilt.cfg", workers=4, timeout=600)
    if "C15_Complete" not in r2.violated:
        raise c.Trouble("the text-keyed operational model was expected to violate C15_Complete (vacuity guard)\n" + r2.out[-1500:])
    cov["textkeyed_model_counterexample_len"] = r2.depth - 1

    # 2. direction A
    candidates = []
    asbuilt_hits = 0
    replayed = nontrivial = 0
    runs = [("PathTrie_emit4.cfg" if thorough else "PathTrie_emit.cfg", None, None),
            ("PathTrie_sim.cfg", "num=%d" % (20000 if thorough else 1500), 7)]
    for cfgname, sim, depth in runs:
        out = os.path.join(sc, cfgname + ".cases")
        r = c.tlc("PathTrieMC", cfgname, workers=1, out_file=out, simulate=sim, depth=depth, seed_=seed, timeout=3000)
        if r.rc == 124 or r.error or r.violated:
            raise c.Trouble("TLC emission run %s failed:\n%s" % (cfgname, r.out[-2000:]))
        rp = out + ".json"
        p = subprocess.run([v, "trie-replay", "--cases", out, "--out", rp], stdout=subprocess.PIPE, stderr=subprocess.STDOUT, text=True)
        if p.returncode != 0:
            raise c.Trouble("trie-replay failed: " + p.stdout[-2000:])
        rep = json.load(open(rp))
        os.remove(out)
        if rep["cases"] == 0:
            raise c.Trouble("no cases from " + cfgname)
        c.log("direction A %s: %d lists replayed on paths.FindConflicts, %d with overlaps, %d differing" % (cfgname, rep["cases"], rep["nontrivial"], len(rep["mismatches"])))
        replayed += rep["cases"]
        nontrivial += rep["nontrivial"]
        cov["samples"] += rep["samples"][:2]
        cov["runs"].append({"cfg": cfgname, "lists": rep["cases"], "with_overlap": rep["nontrivial"]})
        for m in sorted(rep["mismatches"], key=lambda m: len(m["list"]))[:6]:
            candidates.append(m["list"])

    # 3. direction B
    tr = os.path.join(sc, "trie_trace.ndjson")
    n = 20000 if thorough else 2000
    subprocess.run([v, "trie-record", "--out", tr, "--n", str(n), "--seed", str(seed), "--maxlen", "8" if thorough else "7"], check=True)
    events = [json.loads(l) for l in open(tr)]
    r = c.tlc("PathTrieTrace", "PathTrieTrace.cfg", workers=1, defines={"trie_trace.ndjson": open(tr).read()}, timeout=3000)
    verdicts = [l.split()[2].strip('"') for l in r.out.splitlines() if l.startswith('"VERDICT')]
    if len(verdicts) != len(events):
        raise c.Trouble("trace validation incomplete (%d of %d events):\n%s" % (len(verdicts), len(events), r.out[-2000:]))
    cl = collections.Counter(verdicts)
    c.log("direction B: %d recorded calls classified by TLC: %s" % (len(events), dict(cl)))
    if cl.get("badrender"):
        raise c.Trouble("harness rendering of a template disagrees with the specification's Render")
    for i, vd in enumerate(verdicts):
        if vd != "strict" and len(candidates) < 12:
            candidates.append(events[i]["list"])
    cov["trace_events"] = len(events)
    cov["trace_classes"] = dict(cl)

    # 3b. the layer that builds the list: real projects through GenerateGraph + Validate; exactly the methods whose FULL path
    #     (controller route + method route) overlaps another same-verb route must carry a route-conflict warning
    from . import f1_pipeline as f1
    out = os.path.join(sc, "c15proj.cases")
    r = c.tlc("PipelineMC", "Pipeline_c15sim.cfg", workers=1, out_file=out, simulate="num=%d" % (800 if thorough else 60), depth=80, seed_=seed + 5, timeout=3000)
    if r.rc == 124 or r.error or r.violated:
        raise c.Trouble("TLC emission for the project-level C15 check failed:\n" + r.out[-1500:])
    prec = os.path.join(sc, "c15proj.rec")
    f1.pipe_run(v, c.build_gleece(), out, prec, os.path.join(sc, "c15work"), ["--main=false", "--alt=false"])
    pj = f1.judge(v, prec, prec + ".json")
    if pj["trouble"]:
        raise c.Trouble("harness trouble in the project-level C15 run: " + "; ".join(pj["trouble"][:2]))
    proj_findings = [f for f in pj["findings"] if f["prop"] == "C15"]
    c.log("project level: %d projects validated by the real ApiValidator, %d with conflicting routes, %d differing" %
          (pj["evaluated"].get("C15", 0), pj["nontrivial"].get("C15", 0), len(proj_findings)))
    cov["project_level"] = {"projects": pj["evaluated"].get("C15", 0), "with_conflicts": pj["nontrivial"].get("C15", 0)}
    if pj["evaluated"].get("C15", 0) == 0:
        raise c.Trouble("project-level C15 run evaluated nothing")
    proj_violations, unreproduced = [], []
    for f in proj_findings[:3]:
        # isolation: re-run that single project in a fresh directory / process
        one = os.path.join(sc, "c15one-%s.cases" % f["id"])
        import hashlib
        with open(one, "w") as fo:
            for line in open(out):
                if line.startswith('"CASE ') and "c" + hashlib.sha256(json.loads(line).encode()).hexdigest()[:12] == f["id"]:
                    fo.write(line)
        rec1 = one + ".rec"
        again = []
        for attempt in range(4):      # the order in which controllers are validated comes from a map iteration: a miss may need a few runs to show again
            f1.pipe_run(v, c.build_gleece(), one, rec1, os.path.join(sc, "c15work1"), ["--main=false", "--alt=false"])
            again = [x for x in f1.judge(v, rec1, rec1 + ".json")["findings"] if x["prop"] == "C15"]
            if again:
                break
        if not again:
            unreproduced.append(f["what"])    # decided after the trie-level candidates: something reproducible is reported first
            continue
        keep = os.path.join(c.REPLAYS, "C15-%s.cases" % f["id"])
        os.makedirs(c.REPLAYS, exist_ok=True)
        import shutil
        shutil.copy(one, keep)
        proj_violations.append((again[0]["what"], c.save_replay(PROP, {"property": PROP, "family": "trie-project", "case_file": keep, "what": again[0]["what"]})))

    # 4. confirm in isolation
    violations, known_hits = [], []
    known = c.known_for(PROP)
    if candidates:
        candidates = sorted(candidates, key=len)[:8]
        vds = classify(v, candidates)
        seen = set()
        for L, vd in zip(candidates, vds):
            if vd == "strict":
                raise c.Trouble("candidate not reproduced in isolation: " + json.dumps(L))
            if vd == "badrender":
                raise c.Trouble("rendering mismatch on candidate " + json.dumps(L))
            if vd == "asbuilt":
                k = [f for f in known if f.get("signature") == "dedup-by-path-text"]
                if k:
                    if "asbuilt" not in seen:
                        known_hits.append(k[0]["what"])
                    seen.add("asbuilt")
                    continue
            desc = "FindConflicts on %s does not flag exactly the overlapping same-verb entries (class %s)" % (json.dumps([[e["verb"], e["path"]] for e in L]), vd)
            path = c.save_replay(PROP, {"property": PROP, "family": "trie", "list": L, "class": vd})
            violations.append((desc, path))

    violations += proj_violations
    if unreproduced and not violations:
        raise c.Trouble("project-level C15 candidate not reproduced in isolation: " + unreproduced[0])
    cov["traces_validated_against_impl"] = replayed + len(events)
    cov["evaluations"] = replayed + len(events)
    cov["distinct_nontrivial"] = nontrivial
    cov["rule"] = "every list up to the bound over the template set (all permutations and duplicates included) + seeded random lists; non-trivial = list containing at least one overlapping same-verb pair"
    cov["exhaustive"] = True
    c.write_evidence(PROP, tier, "model_checking", cov, time.time() - t0,
                     ["entries are identified through distinct Meta.Receiver values", "segment alphabet: two/three literals and parameters, four spellings of a template (leading slash, none, trailing, doubled)",
                      "the check is on paths.FindConflicts; the ApiValidator layer that builds the list is exercised by the pipeline family"], len(violations))
    c.finish(PROP, violations, known_hits)


def replay(path):
    v = c.build_harness()
    data = json.load(open(path))
    if data.get("family") == "trie-project":
        from . import f1_pipeline as f1
        sc = c.scratch()
        rec1 = os.path.join(sc, "c15replay.rec")
        f1.pipe_run(v, c.build_gleece(), data["case_file"], rec1, os.path.join(sc, "c15workr"), ["--main=false", "--alt=false"])
        again = [x for x in f1.judge(v, rec1, rec1 + ".json")["findings"] if x["prop"] == "C15"]
        if not again:
            print("replay: project handled as the property demands on this tree")
            return 0
        print("VIOLATION property=%s replay=%s" % (PROP, path))
        print("  " + again[0]["what"])
        return 1
    vd = classify(v, [data["list"]])[0]
    if vd == "strict":
        print("replay: list handled as the property demands on this tree")
        return 0
    print("VIOLATION property=%s replay=%s" % (PROP, path))
    print("  class " + vd)
    return 1
