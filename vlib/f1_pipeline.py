"""Family F1 — the pipeline (properties C01 C04 C06 C07 C08 C10 C11 C13 C14 C18 C19 C20).

One *recording* per (tree, tier, seed) is shared by all properties of the family:
  1. TLC checks the session machine Pipeline.tla (design level: C08 C10 C13 C14 C20 + the C01/C02 statements on the model),
     and shows that the first-come serial numbering (SortBeforeReduce = FALSE) violates C13_Deterministic.
  2. TLC enumerates / random-walks the author's input space (property-targeted exhaustive configs + seeded simulation)
     and prints one CASE per project with the declarative expectations of Project.tla.
  3. The Go harness concretises every case into a Go module and runs the real CLI (fresh process per run, hooks on):
     spec-and-routes with the case's configuration, `generate spec` with the other OpenAPI version, repeated and
     re-scheduled runs for C13; observations are projected and judged per property against the expectations (direction A).
  4. The hook traces of all runs are validated by TLC against PipelineTrace.tla (direction B).
  5. A candidate violation is re-executed in isolation (fresh project directory, fresh processes) before it is reported.
The recording is cached under .cache/ keyed by the content of the repository tree, of /verif's machinery, tier and seed.
"""
import collections, hashlib, json, os, random, re, shutil, subprocess, time
from . import common as c

ORDERS = "id|rev|1,2,0|2,0,1|0,2,1|1,0,2|rev;id;rev;id|id;rev;id;rev"
ORDERS_QUICK = "id|rev|1,2,0|2,0,1|rev;id;rev;id"


def tree_hash():
    h = hashlib.sha256()
    roots = [(c.REPO, (".go", ".hbs", ".mod", ".sum")), (os.path.join(c.VERIF, "spec"), (".tla", ".cfg")),
             (os.path.join(c.VERIF, "harness"), (".go", ".mod")), (os.path.join(c.VERIF, "vlib"), (".py",))]
    for root, exts in roots:
        for d, dirs, files in os.walk(root):
            dirs[:] = sorted(x for x in dirs if x not in (".git", "node_modules", "__pycache__"))
            for f in sorted(files):
                if f.endswith(exts):
                    p = os.path.join(d, f)
                    h.update(p.encode())
                    try:
                        h.update(open(p, "rb").read())
                    except OSError:
                        pass
    kf = os.path.join(c.VERIF, "known_findings.json")
    if os.path.exists(kf):
        h.update(open(kf, "rb").read())
    return h.hexdigest()[:20]


def cache_dir(tier):
    key = "%s-%s-%d" % (tree_hash(), tier, c.seed())
    base = os.path.join(c.VERIF, ".cache")
    os.makedirs(base, exist_ok=True)
    return os.path.join(base, "f1-" + key), base


def prune(base, keep=3):
    now = time.time()
    ds = sorted((os.path.join(base, d) for d in os.listdir(base) if d.startswith("f1-") and ".tmp-" not in d), key=os.path.getmtime)
    for d in ds[:-keep]:
        shutil.rmtree(d, ignore_errors=True)
    for d in os.listdir(base):      # abandoned builds (a build in progress is never older than a few hours)
        if d.startswith("f1-") and ".tmp-" in d and now - os.path.getmtime(os.path.join(base, d)) > 6 * 3600:
            shutil.rmtree(os.path.join(base, d), ignore_errors=True)


def stratum(line):
    """Sampling stratum of a case: which perturbation kinds it carries, on which base route, under which controller prefix, with
    which type set - so that a sample of an enumerated input set touches every kind of input before it repeats one."""
    try:
        cs = json.loads(json.loads(line)[5:])
    except Exception:
        return ""
    cfg = cs.get("cfg", {})
    key = ["%s|%s" % (cfg.get("enforce"), bool((cfg.get("default") or {}).get("scheme")))]
    key += ["%s|%s|%s" % (c_["prefix"], bool(c_.get("sec")), bool(c_.get("tag"))) for c_ in cs.get("ctrls", [])]
    prefixes = {c_["id"]: c_["prefix"] for c_ in cs.get("ctrls", [])}
    routes = sorted((prefixes.get(m["ctrl"], "") + m.get("route", "")) for m in cs.get("methods", []))
    # path shape: doubled slashes, trailing slash, several verbs on one path
    anon = [re.sub(r"\{[^}]*\}", "{}", r_.replace("//", "/")) for r_ in routes]
    key.append("%s|%s|%s|%s" % (any("//" in r_ for r_ in routes), any(r_.endswith("/") for r_ in routes), len(set(r_.replace("//", "/") for r_ in routes)) < len(routes),
                                len(set(anon)) < len(set(r_.replace("//", "/") for r_ in routes))))
    for m in cs.get("methods", []):
        key.append("%s|%s|%s" % (m.get("hidden"), bool(m.get("sec")), ",".join(sorted(set(x.get("scheme", "") for x in (m.get("sec") or []) if x.get("scheme") in ("s9", "S1"))))))
        kinds = sorted(set(piece.split(":")[0] for piece in (m.get("ptag") or "").split("+")))
        key.append(",".join("%s:%s:%s:%s" % (a_.get("kind"), bool(a_.get("alias")), a_.get("validate") or "", next((sg["type"] for sg in m.get("sig", []) if sg["name"] == a_.get("value")), ""))
                            for a_ in m.get("anns", [])) if len(m.get("anns", [])) == 1 else "")
        key.append("%s|%s|%s|%s" % (",".join(kinds), m.get("desc", ""), len(m.get("sig", [])), ",".join(str(g) for g in m.get("groups", []))))
        key.append("%s|%s|%s" % (m.get("response"), len(m.get("ret", [])), len(m.get("errors", []))))      # the response side: declared code x value/no value x error list
    key.append(",".join(sorted(t["name"] + (":" + t["fields"][0]["type"] if t["name"] in ("Hostile", "Rules") and t.get("fields") else "") for t in cs.get("types", []))))
    return json.dumps(key)


def sample_cases(path, n, rng, out):
    lines = [l for l in open(path) if l.startswith('"CASE ')]
    if len(lines) > n:
        strata = collections.OrderedDict()
        for l in lines:
            strata.setdefault(stratum(l), []).append(l)
        groups = list(strata.values())
        rng.shuffle(groups)
        for g_ in groups:
            rng.shuffle(g_)
        picked, i = [], 0
        while len(picked) < n:
            g_ = groups[i % len(groups)]
            if g_:
                picked.append(g_.pop())
            i += 1
            if i > n * len(groups) + len(lines):
                break
        lines = picked
    with open(out, "a") as f:
        f.writelines(lines)
    return len(lines)


def pipe_run(v, g, cases, out, work, extra=()):
    p = subprocess.run([v, "pipe-run", "--cases", cases, "--out", out, "--gleece", g, "--repo", c.REPO, "--work", work, "--jobs", str(c.NCPU)] + list(extra),
                       stdout=subprocess.PIPE, stderr=subprocess.STDOUT, text=True)
    if p.returncode != 0:
        raise c.Trouble("pipe-run failed: " + p.stdout[-2000:])


def judge(v, records, out):
    p = subprocess.run([v, "pipe-judge", "--records", records, "--out", out], stdout=subprocess.PIPE, stderr=subprocess.STDOUT, text=True)
    if p.returncode != 0:
        raise c.Trouble("pipe-judge failed: " + p.stdout[-2000:])
    return json.load(open(out))


def validate_traces(v, records, sc, tag):
    tr, idx = os.path.join(sc, tag + ".trace.ndjson"), os.path.join(sc, tag + ".trace.idx")
    subprocess.run([v, "pipe-trace", "--records", records, "--out", tr, "--index", idx], check=True)
    n = sum(1 for _ in open(tr))
    if n == 0:
        return {"events": 0, "viol": []}
    r = c.tlc("PipelineTrace", "PipelineTrace.cfg", workers=1, defines={"pipeline_trace.ndjson": open(tr).read()}, timeout=3000)
    if r.error and not r.postcondition_false or r.rc == 124:
        raise c.Trouble("pipeline trace validation failed to run:\n" + r.out[-2000:])
    if r.depth - 1 != n:
        raise c.Trouble("pipeline trace validation consumed %d of %d events:\n%s" % (r.depth - 1, n, r.out[-1500:]))
    index = open(idx).read().splitlines()
    viol = []
    for line in r.out.splitlines():
        if line.startswith('"VIOL '):
            parts = line.strip('"').split()
            prop, l, ev = parts[1], int(parts[2]), " ".join(parts[3:])
            cid, run = index[l - 1].split()
            viol.append({"prop": prop, "id": cid, "run": run, "event": ev})
    return {"events": n, "viol": viol}


def conform(v, records, sc, tag, max_runs=0):
    """Direction B with the session machine's own actions (spec/PipelineConform.tla): every run of the recording is replayed through
    Pipeline.tla; returns the runs the machine could not explain."""
    tr, idx = os.path.join(sc, tag + ".conform.ndjson"), os.path.join(sc, tag + ".conform.idx")
    subprocess.run([v, "pipe-conform", "--records", records, "--out", tr, "--index", idx, "--max-runs", str(max_runs)], check=True)
    lines = open(tr).read().splitlines()
    n = len(lines)
    if n == 0:
        return {"events": 0, "runs": 0, "rejected": []}
    r = c.tlc("PipelineConform", "PipelineConform.cfg", workers=1, defines={"pipeline_conform.ndjson": "\n".join(lines) + "\n"}, timeout=3000,
              java_opts=["-Xss512m"])
    if (r.error and not r.postcondition_false) or r.rc == 124 or r.depth - 1 != n:
        raise c.Trouble("conformance replay through Pipeline.tla failed to run (%d of %d lines):\n%s" % (r.depth - 1, n, r.out[-2500:]))
    index = open(idx).read().splitlines()
    rejected = []
    for line in r.out.splitlines():
        if line.startswith('"REJECT '):
            parts = line.strip('"').split()
            ln = int(parts[1])
            cid, run = index[ln - 1].split()
            rejected.append({"id": cid, "run": run, "event": parts[2], "state": parts[3] if len(parts) > 3 else "", "line": ln})
    return {"events": n, "runs": sum(1 for x in lines if '"event":"Run"' in x), "rejected": rejected}


def repo_tests_traces(sc, tier):
    """Direction B on the repository's own tests: their pipeline runs, traced by the hooks, must obey the same ordering rules."""
    out = os.path.join(sc, "repotests.ndjson")
    pkgs = ["./test/sanity/...", "./test/diagnostics/...", "./test/errorhandling/..."]
    if tier == "thorough":
        pkgs += ["./test/commandline/...", "./test/security/...", "./test/alias/...", "./test/generics/...", "./test/specials/...", "./test/imports/...", "./e2e/..."]
    p = subprocess.run([os.path.join(c.VERIF, "tools", "repotests_trace.sh"), out] + pkgs, stdout=subprocess.PIPE, stderr=subprocess.STDOUT, text=True, env=c.goenv())
    events, lines = [], []
    last_pkg, seen_graph = None, False
    for line in open(out):
        ev = json.loads(line)
        pkg = ev.pop("pkg", "")
        ev.pop("seq", None)
        if pkg != last_pkg or ev["event"] == "ConfigRead" or (ev["event"] == "GraphGenerated" and seen_graph):
            lines.append({"event": "Run", "cmd": "repo-test " + pkg, "version": "3.0.0", "lenient": True})
            seen_graph = False
        last_pkg = pkg
        if ev["event"] == "GraphGenerated":
            seen_graph = True
        lines.append(ev)
    if not lines:
        return {"events": 0, "viol": [], "packages": pkgs, "log": p.stdout[-500:]}
    r = c.tlc("PipelineTrace", "PipelineTrace.cfg", workers=1, defines={"pipeline_trace.ndjson": "".join(json.dumps(x) + "\n" for x in lines)}, timeout=1200)
    if (r.error and not r.postcondition_false) or r.rc == 124 or r.depth - 1 != len(lines):
        raise c.Trouble("validation of the repository tests' traces failed to run:\n" + r.out[-2000:])
    viol = []
    for line in r.out.splitlines():
        if line.startswith('"VIOL '):
            parts = line.strip('"').split()
            viol.append({"prop": parts[1], "id": "repo-tests", "run": lines[int(parts[2]) - 1].get("event", ""), "event": " ".join(parts[3:]) + " (trace line %s of the repository tests)" % parts[2]})
    return {"events": len(lines), "viol": viol, "packages": pkgs}


def build_recording(tier):
    d, base = cache_dir(tier)
    done = os.path.join(d, "DONE")
    if os.path.exists(done) and not os.environ.get("VERIF_NOCACHE"):
        c.log("family F1: using cached recording " + os.path.basename(d))
        return d
    # several checks of the family may start at once: each builds into its own directory and publishes it with one rename
    final_d = d
    d = "%s.tmp-%d" % (final_d, os.getpid())
    shutil.rmtree(d, ignore_errors=True)
    os.makedirs(d)
    t0 = time.time()
    thorough = tier == "thorough"
    seed = c.seed()
    rng = random.Random(seed)
    v = c.build_harness()
    g = c.build_gleece()
    sc = c.scratch()
    meta = {"tier": tier, "seed": seed, "models": {}, "emission": []}

    # 1. design level
    r = c.tlc("PipelineMC", "Pipeline_model.cfg", workers=min(c.NCPU, 12), timeout=3000)
    c.tlc_model_ok(r, "Pipeline_model.cfg")
    meta["models"]["Pipeline_model.cfg"] = {"states": r.distinct, "transitions": r.generated}
    r2 = c.tlc("PipelineMC", "Pipeline_asbuilt.cfg", workers=min(c.NCPU, 12), timeout=3000)
    if "C13_Deterministic" not in r2.violated:
        raise c.Trouble("the first-come serial model was expected to violate C13_Deterministic (vacuity guard):\n" + r2.out[-1500:])
    meta["models"]["Pipeline_asbuilt.cfg"] = {"violates": "C13_Deterministic", "counterexample_len": r2.depth}
    c.log("session machine: %d states, %d transitions; design properties hold (and the unsorted-serial variant violates C13 as expected)" % (r.distinct, r.generated))

    # 2. inputs (TLC emission runs in parallel) and 3. the real CLI, one pipe-run per input set with the runs that set needs
    cases = os.path.join(d, "cases.txt")
    open(cases, "w").close()
    rec = os.path.join(d, "records.ndjson")
    open(rec, "w").close()
    work = os.path.join(sc, "work")
    # (cfg, simulate-walks, sample-size, extra pipe-run flags)
    V0, A0 = ["--validate=false"], ["--alt=false"]
    plan = [("Pipeline_c04.cfg", None, 500 if thorough else 72, V0), ("Pipeline_c01sim.cfg", 500 if thorough else 30, None, []), ("Pipeline_c01core.cfg", None, 10 ** 6 if thorough else 36, []),
            ("Pipeline_sim.cfg", 500 if thorough else 30, None, []),
            # (the three sets above run the in-process Validate too: diagnostics of multi-file, multi-controller projects - C18)
            ("Pipeline_c06single.cfg", None, 10 ** 6 if thorough else 70, V0), ("Pipeline_c06grp.cfg", None, 10 ** 6 if thorough else 16, V0), ("Pipeline_c06resp.cfg", None, 10 ** 6 if thorough else 40, V0), ("Pipeline_c06sim.cfg", 700 if thorough else 20, None, V0),
            ("Pipeline_c07sim.cfg", 700 if thorough else 36, None, V0), ("Pipeline_c11rules.cfg", None, 10 ** 6, V0), ("Pipeline_c11rulesp.cfg", None, 10 ** 6, V0), ("Pipeline_c10core.cfg", None, 10 ** 6, A0), ("Pipeline_c10.cfg", None, 1000 if thorough else 24, A0), ("Pipeline_c10mask.cfg", None, 400 if thorough else 24, A0),
            ("Pipeline_c10maskcore.cfg", None, 10 ** 6, A0), ("Pipeline_c10enf.cfg", None, 10 ** 6, A0), ("Pipeline_c10twin.cfg", None, 10 ** 6, A0), ("Pipeline_c18pair.cfg", None, 10 ** 6, A0),
            ("Pipeline_c13sim.cfg", 300 if thorough else 24, None, V0 + A0),
            ("Pipeline_c14sim.cfg", 900 if thorough else 30, None, V0), ("Pipeline_c14types.cfg", None, 10 ** 6, V0), ("Pipeline_c14generics.cfg", None, 10 ** 6, V0)]
    if len(plan) != 22:
        raise c.Trouble("the F1 plan lists %d input sets, 22 are registered (a set was dropped by accident?)" % len(plan))
    if thorough:
        plan.append(("Pipeline_c10sim.cfg", None, 800, A0))     # every double perturbation, enumerated; a stratified sample is run
    import concurrent.futures
    conf = {"events": 0, "runs": 0, "rejected": []}

    def emit(item):
        cfgname, sim, take, flags = item
        out = os.path.join(sc, cfgname + ".cases")
        r = c.tlc("PipelineMC", cfgname, workers=1, out_file=out, simulate=("num=%d" % sim) if sim else None, depth=80 if sim else None, seed_=seed, timeout=7200)
        if r.rc == 124 or r.error or r.violated:
            raise c.Trouble("TLC emission run %s failed:\n%s" % (cfgname, r.out[-2000:]))
        return item, out, r

    with concurrent.futures.ThreadPoolExecutor(max_workers=6) as ex:
        emitted = list(ex.map(emit, plan))
    for (cfgname, sim, take, flags), out, r in emitted:
        part = os.path.join(sc, cfgname + ".part")
        open(part, "w").close()
        n = sample_cases(out, take or 10 ** 9, rng, part)
        if sim is None:
            meta["models"][cfgname] = {"states": r.distinct, "transitions": r.generated}
        meta["emission"].append({"cfg": cfgname, "cases": n})
        os.remove(out)
        if n == 0:
            raise c.Trouble("no cases from " + cfgname)
        prec = part + ".rec"
        pipe_run(v, g, part, prec, work, flags)
        if cfgname not in HOSTILE_SETS:
            cf = conform(v, prec, sc, "cf-" + cfgname)
            conf["events"] += cf["events"]
            conf["runs"] += cf["runs"]
            conf["rejected"] += [dict(x, prop=CONFORM_PROP.get(x["event"], "C14"), cfg=cfgname) for x in cf["rejected"]]
        with open(cases, "a") as f:
            f.write(open(part).read())
        with open(rec, "a") as f:
            f.write(open(prec).read())
    # C13: repeated and re-scheduled runs on the accepted multi-controller cases
    multi = os.path.join(sc, "multi.cases")
    ids, twins, spreads, dups, reps = [], [], [], [], []
    for line in open(rec):
        r_ = json.loads(line)
        m = r_["runs"].get("main")
        if not (m and m["exit"] == 0):
            continue
        names = [x["name"] for x in r_["case"]["ctrls"]]
        imported = any("." in p_["type"] and not p_["type"].startswith("context.") for m_ in r_["case"]["methods"] for p_ in m_["sig"]) or \
            any("." in t_ for m_ in r_["case"]["methods"] for t_ in m_["ret"])
        files_of = collections.defaultdict(set)
        for m_ in r_["case"]["methods"]:
            files_of[m_["ctrl"]].add(m_["file"])
        secs = [s_ for x_ in r_["case"]["ctrls"] + r_["case"]["methods"] for s_ in x_.get("sec") or []]
        def rep_alt(x_):
            alts = [json.dumps([s_.get("scheme"), s_.get("scopes") or []]) for s_ in x_.get("sec") or []]
            return len(set(alts)) < len(alts)
        if any(rep_alt(x_) for x_ in r_["case"]["ctrls"] + r_["case"]["methods"]):
            reps.append(r_["id"])       # one alternative written twice among others: whatever collapses them through a map loses the written order
        elif any(len(set(s_.get("scopes") or [])) < len(s_.get("scopes") or []) for s_ in secs):
            dups.append(r_["id"])       # a scope listed twice in one @Security: whatever de-duplicates through a set loses the written order
        elif len(set(names)) < len(names) and imported:
            twins.append(r_["id"])      # controllers sharing a struct name across packages, with imported types: ordering by name alone is ambiguous
        elif any(len(v_) >= 2 for v_ in files_of.values()):
            spreads.append(r_["id"])    # a controller whose methods live in several files: the order in which files are met orders its handlers
        elif len(names) >= 2:
            ids.append(r_["id"])
    rng.shuffle(ids)
    rng.shuffle(twins)
    rng.shuffle(spreads)
    rng.shuffle(dups)
    rng.shuffle(reps)
    n13 = 120 if thorough else 12
    twins = twins[:n13 // 3]
    spreads = spreads[:n13 // 3]
    dups = dups[:max(2, n13 // 6)] + reps[:max(3, n13 // 6)]
    ids = set(twins + spreads + dups + ids[:n13 - len(twins) - len(spreads)])
    with open(multi, "w") as f:
        for line in open(cases):
            if line.startswith('"CASE '):
                h = hashlib.sha256(json.loads(line).encode()).hexdigest()[:12]
                if "c" + h in ids:
                    f.write(line)
    rec13 = os.path.join(d, "records13.ndjson")
    if ids:
        pipe_run(v, g, multi, rec13, work, ["--alt=false", "--validate=false", "--repeat", "6" if thorough else "3", "--orders", ORDERS if thorough else ORDERS_QUICK])
    else:
        open(rec13, "w").close()
    shutil.rmtree(work, ignore_errors=True)

    # 4. judge + traces
    j = judge(v, rec, os.path.join(d, "judged.json"))
    j13 = judge(v, rec13, os.path.join(d, "judged13.json"))
    tv = validate_traces(v, rec, sc, "main")
    tv13 = validate_traces(v, rec13, sc, "c13")
    rt = repo_tests_traces(sc, tier)
    if rt["viol"]:
        raise c.Trouble("the repository's own tests produce traces the trace specification rejects (spec too strict or hook misplaced): %s" % rt["viol"][:3])
    meta["repo_tests"] = {"events": rt["events"], "packages": rt["packages"]}
    meta["conform"] = conf
    meta["trace"] = {"events": tv["events"] + tv13["events"] + rt["events"], "viol": tv["viol"] + tv13["viol"]}
    meta["wall"] = round(time.time() - t0, 1)
    json.dump(meta, open(os.path.join(d, "meta.json"), "w"), indent=1)
    c.log("recording: %d cases (%d accepted) + %d C13 cases, %d hook events validated by TLC, %.0fs" %
          (j["cases"], j["accepted"], j13["cases"], meta["trace"]["events"], meta["wall"]))
    open(os.path.join(d, "DONE"), "w").write("ok")
    if os.environ.get("VERIF_NOCACHE"):
        shutil.rmtree(final_d, ignore_errors=True)
    try:
        os.rename(d, final_d)
        d = final_d
    except OSError:
        # another check of the family published the same recording first: use that one
        if os.path.exists(os.path.join(final_d, "DONE")):
            shutil.rmtree(d, ignore_errors=True)
            d = final_d
    prune(base)
    return d


# input sets whose projects the session machine does not claim to predict (verbatim hostile declarations, malformed properties)
HOSTILE_SETS = {"Pipeline_c14sim.cfg", "Pipeline_c14types.cfg", "Pipeline_c14generics.cfg"}
# which property a run belongs to when the session machine cannot explain it at this event
CONFORM_PROP = {"Validated": "C10", "RunFailedOnDiagnostics": "C10", "Reduced": "C10", "RoutesWritten": "C10", "ConfigAccepted": "C20", "ConfigRejected": "C20",
                "PackagesLoad": "C20", "Spec30Built": "C08", "Spec30Validated": "C08", "Spec31Built": "C08", "Spec31Validated": "C08", "SpecWritten": "C08", "Exit": "C14"}
KNOWN_PATTERNS = {}   # signature -> (prop, regex on the finding text); filled from known_findings.json entries that carry a "match"


def confirm(prop, cid, d, extra):
    """Re-executes one case in isolation and re-judges it."""
    v = c.build_harness()
    g = c.build_gleece()
    sc = c.scratch()
    one = os.path.join(sc, "one-%s.cases" % cid)
    with open(one, "w") as f:
        for line in open(os.path.join(d, "cases.txt")):
            if line.startswith('"CASE ') and "c" + hashlib.sha256(json.loads(line).encode()).hexdigest()[:12] == cid:
                f.write(line)
                break
    rec = os.path.join(sc, "one-%s.rec" % cid)
    pipe_run(v, g, one, rec, os.path.join(sc, "work1"), extra)
    j = judge(v, rec, rec + ".json")
    tv = validate_traces(v, rec, sc, "one-" + cid)
    found = [f for f in j["findings"] if f["prop"] == prop] + [dict(prop=x["prop"], id=x["id"], what="trace rule violated at %s of run %s" % (x["event"], x["run"]), **{"class": "violation"}) for x in tv["viol"] if x["prop"] == prop]
    if prop != "C13" and not any(t_.get("kind") == "raw" or t_.get("name") == "Hostile" for t_ in json.loads(json.loads(open(one).readline())[5:]).get("types", [])):
        cf = conform(v, rec, sc, "one-cf-" + cid)
        found += [{"prop": prop, "id": cid, "class": "violation",
                   "what": "run %s is not a behaviour of the session machine (Pipeline.tla): event %s cannot be taken in state %s" % (x["run"], x["event"], x["state"])}
                  for x in cf["rejected"] if CONFORM_PROP.get(x["event"], "C14") == prop]
    return found, one


def run(tier, prop):
    t0 = time.time()
    d = build_recording(tier)
    meta = json.load(open(os.path.join(d, "meta.json")))
    j = json.load(open(os.path.join(d, "judged.json")))
    j13 = json.load(open(os.path.join(d, "judged13.json")))
    if j["trouble"] or j13["trouble"]:
        raise c.Trouble("harness trouble in the recording: " + "; ".join((j["trouble"] + j13["trouble"])[:3]))
    src = j13 if prop == "C13" else j
    findings = [f for f in src["findings"] if f["prop"] == prop]
    findings += [{"prop": x["prop"], "id": x["id"], "what": "trace rule violated at %s of run %s" % (x["event"], x["run"]), "class": "violation"}
                 for x in meta["trace"]["viol"] if x["prop"] == prop]
    if prop != "C13":
        findings += [{"prop": x["prop"], "id": x["id"], "class": "violation",
                      "what": "run %s is not a behaviour of the session machine (Pipeline.tla): event %s cannot be taken in state %s" % (x["run"], x["event"], x["state"])}
                     for x in meta.get("conform", {}).get("rejected", []) if x["prop"] == prop]
    known = c.known_for(prop)
    violations, known_hits, seen = [], [], set()
    def coarse(f):
        return f.get("class", "violation") + "|" + re.sub(r"[0-9]+|'[^']*'|\"[^\"]*\"|\([^)]*\)", "#", f["what"])[:70]

    def known_sig(f):
        """Signature of the recorded finding that accounts for f, or None: a recorded finding never takes a slot from anything else."""
        cls = f.get("class", "violation")
        if cls.startswith("known:"):
            return cls[6:] if any(x["signature"] == cls[6:] for x in known) else None
        for x in known:
            if x.get("match") and re.search(x["match"], f["what"]):
                return x["signature"]
        return None

    fresh = [f for f in findings if known_sig(f) is None and not f.get("class", "").startswith("candidate:")]
    recorded = [f for f in findings if known_sig(f) is not None]
    by_sig = collections.OrderedDict()
    for f in fresh:
        by_sig.setdefault(coarse(f), f)
    picked = list(by_sig.values())[:8]
    by_known = collections.OrderedDict()
    for f in recorded:
        by_known.setdefault(known_sig(f), f)
    picked += list(by_known.values())          # one witness per recorded finding, re-confirmed like everything else
    by_case = collections.OrderedDict()
    for f in picked:
        by_case.setdefault(f["id"], []).append(f)
    extra13 = ["--alt=false", "--repeat", "2", "--orders", ORDERS]
    for cid, fs in list(by_case.items())[:10]:
        if violations:
            break
        again, casefile = confirm(prop, cid, d, extra13 if prop == "C13" else [])
        if not again:
            if prop == "C13":
                # schedule-dependent output may not show on every fresh run; repeat once more before giving up
                again, casefile = confirm(prop, cid, d, ["--alt=false", "--repeat", "6", "--orders", ORDERS])
            if not again:
                raise c.Trouble("candidate for %s on case %s was not reproduced in isolation: %s" % (prop, cid, fs[0]["what"]))
        for f in again:
            cls = f.get("class", "violation")
            if cls.startswith("candidate:"):
                continue
            k = []
            if cls.startswith("known:"):
                k = [x for x in known if x["signature"] == cls[6:]]
            else:
                k = [x for x in known if x.get("match") and re.search(x["match"], f["what"])]
            if k:
                if k[0]["signature"] not in seen:
                    known_hits.append(k[0]["what"])
                    seen.add(k[0]["signature"])
                continue
            keep = os.path.join(c.REPLAYS, "%s-%s.cases" % (prop, cid))
            os.makedirs(c.REPLAYS, exist_ok=True)
            shutil.copy(casefile, keep)
            path = c.save_replay(prop, {"property": prop, "family": "pipeline", "case_file": keep, "case_id": cid, "what": f["what"], "more": f.get("more", [])})
            violations.append((f["what"], path))
            break

    models = meta["models"]
    cov = {"states": sum(m.get("states", 0) for m in models.values()), "transitions": sum(m.get("transitions", 0) for m in models.values()),
           "traces_validated_against_impl": src["evaluated"].get(prop, 0), "evaluations": src["evaluated"].get(prop, 0),
           "distinct_nontrivial": src["nontrivial"].get(prop, 0), "samples": src["samples"].get(prop, [])[:3] or [{"note": "no non-trivial sample in this run"}],
           "cases": src["cases"], "accepted_cases": src["accepted"], "skipped": src["skipped"].get(prop, 0),
           "hook_events_validated_by_tlc": meta["trace"]["events"],
           "runs_replayed_through_session_machine": meta.get("conform", {}).get("runs", 0), "events_replayed_through_session_machine": meta.get("conform", {}).get("events", 0),
           "models": models, "emission": meta["emission"],
           "rule": RULES.get(prop, ""), "recording_wall_s": meta["wall"]}
    if cov["traces_validated_against_impl"] == 0:
        raise c.Trouble("property %s was not exercised by the recording (vacuous run)" % prop)
    c.write_evidence(prop, tier, LEVELS.get(prop, "model_checking"), cov, time.time() - t0,
                     ["'accepted project' is bound to the observed exit status of the real command, never to the model's prediction",
                      "projects are generated from the choice sets of spec/PipelineMC.tla (finite alphabets of names, routes, security shapes)",
                      "the OpenAPI document is read by a plain JSON walk; TLC and the Json module are trusted"], len(violations))
    c.finish(prop, violations, known_hits)


RULES = {
    "C01": "one evaluation per accepted (run, OpenAPI version); non-trivial = project with hidden and visible methods, or >= 2 controllers, or a method in a foreign file; projects with two routes on the same verb+path are skipped (documented separately)",
    "C04": "one evaluation per run; non-trivial = at least two of the three security levels (method, controller, default) populated",
    "C08": "one evaluation per written spec file; non-trivial = document with at least one $ref and one path parameter",
    "C10": "one evaluation per rejected-on-diagnostics run and per project with a known well-linkedness verdict",
    "C06": "one evaluation per documented operation and OpenAPI version; non-trivial = operation with an optional parameter, a body or error responses",
    "C10": "one evaluation per route with a well-linkedness verdict from the specification (every single perturbation of two base routes, sampled double perturbations, plus the well-formed routes of the other input sets) and per run that failed on diagnostics; non-trivial = perturbed route",
    "C18": "one evaluation per diagnostic produced by GenerateGraph+Validate on the perturbed projects, plus one per error text; non-trivial = all of them (each is a located diagnostic)",
    "C07": "one evaluation per accepted run of a project with declared types (type zoo: renamed/omitempty/unexported/json '-' fields, pointers, slices, maps, time, bytes, enums of string/int, aliases, embedding, self reference, second package, usage-site validators); non-trivial = type graph with embedding, recursion or a cross-package reference",
    "C11": "one evaluation per project for which both dialects were generated; the two documents are compared after the dialect map (empty description, exclusive bounds, explicit false flags, type arrays, empty required/security lists); non-trivial = project with validator rules or enums",
    "C13": "one evaluation per accepted multi-run case (2+ fresh repeats and 8 forced schedules of file / node iteration order); non-trivial = >= 2 controllers",
    "C14": "one evaluation per CLI run over all input sets, including the hostile ones (raw annotation properties such as {scopes: null}, arbitrary validator tags such as min=abc, unsupported type shapes: inline struct, func, chan, interface, fixed array, generics, mutual recursion) x both versions x spec-and-routes / spec; non-trivial = run that reached validation (>= 5 hook events)",
}
LEVELS = {"C14": "exploration"}


def replay(path):
    data = json.load(open(path))
    prop = data["property"]
    v = c.build_harness()
    g = c.build_gleece()
    sc = c.scratch()
    rec = os.path.join(sc, "replay.rec")
    pipe_run(v, g, data["case_file"], rec, os.path.join(sc, "workr"), ["--alt=false", "--repeat", "2", "--orders", ORDERS] if prop == "C13" else [])
    j = judge(v, rec, rec + ".json")
    tv = validate_traces(v, rec, sc, "replay")
    found = [f for f in j["findings"] if f["prop"] == prop] + [x for x in tv["viol"] if x["prop"] == prop]
    if not found:
        print("replay: case conforms on this tree")
        return 0
    print("VIOLATION property=%s replay=%s" % (prop, path))
    print("  " + str(found[0].get("what", found[0])))
    return 1
