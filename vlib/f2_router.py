"""Family F2 — the generated routers (C02 C03 C05 C09 C12; enforced side of C04).

  1. TLC model-checks the handler machine Router.tla (gate before invoke, order of checks, refusal status, 422 rule, termination)
     over a small universe of handlers x all scripts x all token assignments.
  2. TLC prints projects (Pipeline emission: effective security, parameter binding per handler) and the value-token table.
  3. The Go harness generates the routes file for the five engines with the real generator, compiles each (C09), builds one
     driver binary holding all routers, serves requests enumerated from the handler descriptions (every approve/refuse script,
     every value token per parameter, absence, refused+invalid, operation failure, negative probes) and records what the
     instrumented user-side code (authorization callback, controllers) saw.
  4. TLC judges every recorded execution against RunOf (RouterTrace.tla) and the five engines' outcomes against each other.
  5. A candidate is re-executed in isolation (the case alone, fresh generation, fresh driver) before it is reported.
One recording per (tree, tier, seed), cached like the pipeline family's.
"""
import collections, hashlib, json, os, random, re, shutil, subprocess, time
from . import common as c
from .f1_pipeline import tree_hash, sample_cases

PROPS = ["C02", "C03", "C05", "C09", "C12"]


def cache_dir(tier):
    base = os.path.join(c.VERIF, ".cache")
    os.makedirs(base, exist_ok=True)
    return os.path.join(base, "f2-%s-%s-%d" % (tree_hash(), tier, c.seed())), base


def router_run(v, g, cases, tokens, out, work, extra=()):
    p = subprocess.run([v, "router-run", "--cases", cases, "--tokens", tokens, "--out", out, "--gleece", g, "--repo", c.REPO, "--work", work, "--jobs", str(c.NCPU)] + list(extra),
                       stdout=subprocess.PIPE, stderr=subprocess.STDOUT, text=True)
    shutil.rmtree(work, ignore_errors=True)
    if p.returncode != 0:
        raise c.Trouble("router-run failed: " + p.stdout[-3000:])


def judge(v, records, sc, tag):
    """C09 facts from the records + TLC's verdicts on the trace."""
    tr, idx = os.path.join(sc, tag + ".rt.ndjson"), os.path.join(sc, tag + ".rt.idx")
    subprocess.run([v, "router-trace", "--records", records, "--out", tr, "--index", idx], check=True)
    lines = open(tr).read().splitlines()
    index = open(idx).read().splitlines()
    findings = []
    stats = collections.Counter()
    recs = {}
    for line in open(records):
        r = json.loads(line)
        recs[r["id"]] = r
        for n in r.get("notes") or []:
            raise c.Trouble("router harness trouble on %s: %s" % (r["id"], n))
        stats["cases"] += 1
        for e, g_ in (r.get("gen") or {}).items():
            stats["gen"] += 1
            if g_["panicked"]:
                findings.append({"prop": "C14", "id": r["id"], "what": "generate routes (%s) crashed: %s" % (e, "; ".join(g_.get("errLines") or [])[:300])})
            if g_["exit"] == 0 and g_["written"]:
                stats["C09"] += 1
                imports_other = any("." in p["type"] and not p["type"].startswith("context.") for m in r["case"]["methods"] for p in m["sig"])
                if imports_other:
                    stats["C09nt"] += 1
                if not g_["compiled"]:
                    names = [(x["name"], x["pkg"]) for x in r["case"]["ctrls"] if not x.get("outside")]
                    twins = any(a[0] == b[0] and a[1] != b[1] for a in names for b in names)
                    import re as _re
                    sig_types = [p_["type"] for m_ in r["case"]["methods"] for p_ in m_["sig"]]
                    ret_types = [t_ for m_ in r["case"]["methods"] for t_ in m_["ret"]]
                    findings.append({"prop": "C09", "id": r["id"], "twins": twins,
                                     "genericResult": any("[" in t_.lstrip("[]*") for t_ in ret_types),
                                     "genericArgDeclared": any(_re.search(r"\w\[.*\bp\d\.", t_) for t_ in sig_types),
                                     "what": "route generation for %s succeeded but the file does not compile: %s" % (e, (g_.get("buildErr") or "")[:400])})
                if g_["pkg"] and g_["gofmt"]:
                    findings.append({"prop": "C09", "id": r["id"], "class": "known:not-gofmt-clean", "what": "the routes file for %s is not gofmt-formatted" % e})
        stats["requests"] += len(r.get("requests") or [])
    n = len(lines)
    viol = []
    if n:
        r = c.tlc("RouterTrace", "RouterTrace.cfg", workers=1, defines={"router_trace.ndjson": "\n".join(lines) + "\n"}, timeout=3000)
        if r.error and not r.postcondition_false or r.rc == 124 or r.depth - 1 != n:
            raise c.Trouble("router trace validation failed (%d of %d lines):\n%s" % (r.depth - 1, n, r.out[-2000:]))
        for line in r.out.splitlines():
            if line.startswith('"VIOL '):
                parts = line.strip('"').split(" ", 3)
                prop, l, what = parts[1], int(parts[2]), parts[3]
                cid, rid, eng = index[l - 1].split()
                rq = [q for q in recs[cid]["requests"] if q["rid"] == int(rid)][0]
                ev = json.loads(lines[l - 1])
                detail = "%s %s on %s (%s; tokens %s, script %s): %s" % (rq["verb"], rq["url"], eng, rq["kind"], rq.get("toks"), rq.get("script"),
                                                                           json.dumps(ev.get("obs", ev.get("outcomes")))[:500])
                hyphen = any(p["in"] == "path" and "-" in p["wire"] for p in (rq.get("handler") or {}).get("params", []))
                slash_arg = any("/" in str(a) for a in ((ev.get("obs") or {}).get("args") or []))
                hparams = (rq.get("handler") or {}).get("params", [])
                empty_header = any(t_ == "empty" and i_ < len(hparams) and hparams[i_]["in"] == "header" for i_, t_ in enumerate(rq.get("toks") or []))
                viol.append({"prop": prop, "id": cid, "what": what, "detail": detail, "engine": eng, "kind": rq["kind"], "url": rq["url"], "toks": rq.get("toks") or [], "hyphenPath": hyphen, "slashArg": slash_arg, "emptyHeader": empty_header})
    runs = sum(1 for x in lines if x.startswith('{"ev":"Run"'))
    cmps = n - runs
    kinds = collections.Counter()
    for cid, r in recs.items():
        for q in r.get("requests") or []:
            kinds[q["kind"]] += 1
    stats.update({"runs": runs, "cmps": cmps})
    return findings + viol, stats, kinds


def _hyphen_path(f):
    # a path parameter whose wire name contains '-' (the request URL does not show the name: look at the handler in the detail text)
    return f.get("hyphenPath", False)


KNOWN_RULES = [
    ("fiber-hyphen-in-path-param", {"C02", "C03", "C05", "C12"}, lambda f: _hyphen_path(f) and (f.get("engine") in ("fiber", "cmp"))),
    # (signature, property set, predicate on a finding)
    # (a probe that reached a handler on echo with a path argument containing '/': the trailing {param} swallowed further segments)
    ("echo-trailing-param-matches-slashes", {"C02", "C12"}, lambda f: f.get("engine") == "echo" and f.get("kind") == "probe" and ("/zz/extra" in f.get("url", "") or f.get("slashArg"))),
    ("fiber-empty-header-is-absent", {"C12"}, lambda f: f.get("kind") == "token" and "empty" in f.get("toks", [])),
    # the same engine behaviour seen from C05: an OPTIONAL (pointer) non-string header sent with an empty value is not answered 422 on fiber
    ("fiber-empty-header-is-absent", {"C05", "C02"}, lambda f: f.get("engine") == "fiber" and f.get("kind") == "token" and f.get("emptyHeader")),
    ("fiber-empty-header-is-absent", {"C12"}, lambda f: f.get("kind") == "token" and f.get("emptyHeader")),
    # (only for projects that really have two controllers of one struct name in two packages: any other redeclaration is a violation)
    ("generic-result-import-alias", {"C09"}, lambda f: f.get("genericResult") and "missing import path" in f.get("what", "")),
    ("generic-argument-unqualified", {"C09"}, lambda f: f.get("genericArgDeclared") and "undefined: " in f.get("what", "")),
    ("same-name-controllers-alias-collision", {"C09"}, lambda f: f.get("twins") and "redeclared in this block" in f.get("what", "")),
]


def classify(f):
    if f.get("class", "").startswith("known:"):
        return f["class"][6:]
    for sig, props, pred in KNOWN_RULES:
        if f["prop"] in props and pred(f):
            return sig
    return None


def build_recording(tier):
    d, base = cache_dir(tier)
    if os.path.exists(os.path.join(d, "DONE")) and not os.environ.get("VERIF_NOCACHE"):
        c.log("family F2: using cached recording " + os.path.basename(d))
        return d
    final_d = d          # (several checks of the family may start at once: build privately, publish with one rename)
    d = "%s.tmp-%d" % (final_d, os.getpid())
    shutil.rmtree(d, ignore_errors=True)
    os.makedirs(d)
    t0 = time.time()
    thorough = tier == "thorough"
    seed = c.seed()
    rng = random.Random(seed)
    v, g, sc = c.build_harness(), c.build_gleece(), c.scratch()
    meta = {"models": {}, "emission": []}
    r = c.tlc("RouterMC", "Router_model.cfg", workers=min(c.NCPU, 12), timeout=3000)
    c.tlc_model_ok(r, "Router_model.cfg")
    meta["models"]["Router_model.cfg"] = {"states": r.distinct, "transitions": r.generated}
    c.log("handler machine: %d states; gate/order/refusal/422/termination hold" % r.distinct)
    tokens = os.path.join(d, "tokens.txt")
    rt = c.tlc("RouterMC", "Router_tokens.cfg", workers=1, out_file=tokens, timeout=300)
    cases = os.path.join(d, "cases.txt")
    open(cases, "w").close()
    plan = [("Pipeline_c04.cfg", None, 60 if thorough else 6), ("Pipeline_c01sim.cfg", 300 if thorough else 12, None),
            ("Pipeline_sim.cfg", 500 if thorough else 12, None), ("Pipeline_c06sim.cfg", 400 if thorough else 12, None), ("Pipeline_c09sim.cfg", 300 if thorough else 18, None),
            ("Pipeline_c06grp.cfg", None, 40 if thorough else 6), ("Pipeline_c14generics.cfg", None, 10 ** 6), ("Pipeline_c14types.cfg", None, 10 ** 6 if thorough else 16),
            ("Pipeline_c05val.cfg", None, 10 ** 6 if thorough else 14)]
    for cfgname, sim, take in plan:
        out = os.path.join(sc, cfgname + ".rcases")
        r = c.tlc("PipelineMC", cfgname, workers=1, out_file=out, simulate=("num=%d" % sim) if sim else None, depth=80 if sim else None, seed_=seed + 17, timeout=3000)
        if r.rc == 124 or r.error or r.violated:
            raise c.Trouble("TLC emission run %s failed:\n%s" % (cfgname, r.out[-2000:]))
        n = sample_cases(out, take or 10 ** 9, rng, cases)
        meta["emission"].append({"cfg": cfgname, "cases": n})
        os.remove(out)
    rec = os.path.join(d, "records.ndjson")
    router_run(v, g, cases, tokens, rec, os.path.join(sc, "rwork"), ["--full"] if thorough else [])
    findings, stats, kinds = judge(v, rec, sc, "main")
    meta.update({"findings": findings, "stats": dict(stats), "kinds": dict(kinds), "wall": round(time.time() - t0, 1)})
    json.dump(meta, open(os.path.join(d, "meta.json"), "w"), indent=1)
    c.log("recording: %d projects x 5 engines generated and compiled, %d requests -> %d executions judged by TLC, %.0fs" %
          (stats["cases"], stats["requests"], stats["runs"], meta["wall"]))
    open(os.path.join(d, "DONE"), "w").write("ok")
    if os.environ.get("VERIF_NOCACHE"):
        shutil.rmtree(final_d, ignore_errors=True)
    try:
        os.rename(d, final_d)
        d = final_d
    except OSError:
        if os.path.exists(os.path.join(final_d, "DONE")):
            shutil.rmtree(d, ignore_errors=True)
            d = final_d
    for old in sorted((os.path.join(base, x) for x in os.listdir(base) if x.startswith("f2-") and ".tmp-" not in x), key=os.path.getmtime)[:-3]:
        shutil.rmtree(old, ignore_errors=True)
    for x in os.listdir(base):
        if x.startswith("f2-") and ".tmp-" in x and time.time() - os.path.getmtime(os.path.join(base, x)) > 6 * 3600:
            shutil.rmtree(os.path.join(base, x), ignore_errors=True)
    return d


def confirm(prop, cid, d):
    v, g, sc = c.build_harness(), c.build_gleece(), c.scratch()
    one = os.path.join(sc, "r-one-%s.cases" % cid)
    with open(one, "w") as f:
        for line in open(os.path.join(d, "cases.txt")):
            if line.startswith('"CASE ') and "c" + hashlib.sha256(json.loads(line).encode()).hexdigest()[:12] == cid:
                f.write(line)
                break
    rec = os.path.join(sc, "r-one-%s.rec" % cid)
    router_run(v, g, one, os.path.join(d, "tokens.txt"), rec, os.path.join(sc, "rwork1"))
    findings, _, _ = judge(v, rec, sc, "one-" + cid)
    return [f for f in findings if f["prop"] == prop], one


def run(tier, prop):
    t0 = time.time()
    d = build_recording(tier)
    meta = json.load(open(os.path.join(d, "meta.json")))
    findings = [f for f in meta["findings"] if f["prop"] == prop]
    known = c.known_for(prop)
    violations, known_hits, seen = [], [], set()
    by_sig = collections.OrderedDict()
    for f in sorted(findings, key=lambda f: classify(f) is not None):
        by_sig.setdefault((classify(f), f["what"][:50], f.get("engine")), f)
    done_cases = {}
    for f in list(by_sig.values())[:6]:
        if f["id"] not in done_cases:
            done_cases[f["id"]] = confirm(prop, f["id"], d)
        again, casefile = done_cases[f["id"]]
        if not again:
            raise c.Trouble("candidate for %s on case %s was not reproduced in isolation: %s" % (prop, f["id"], f["what"]))
        for a in again:
            sig = classify(a)
            k = [x for x in known if x["signature"] == sig] if sig else []
            if k:
                if sig not in seen:
                    known_hits.append(k[0]["what"])
                    seen.add(sig)
                continue
            keep = os.path.join(c.REPLAYS, "%s-%s.cases" % (prop, f["id"]))
            os.makedirs(c.REPLAYS, exist_ok=True)
            shutil.copy(casefile, keep)
            shutil.copy(os.path.join(d, "tokens.txt"), keep + ".tokens")
            path = c.save_replay(prop, {"property": prop, "family": "router", "case_file": keep, "tokens_file": keep + ".tokens", "what": a["what"], "detail": a.get("detail", "")})
            violations.append((a["what"] + " — " + a.get("detail", ""), path))
            break
        if violations:
            break
    st = meta["stats"]
    kinds = meta["kinds"]
    ev = {"C02": st["runs"], "C03": st["runs"], "C05": st["runs"], "C12": st["cmps"], "C09": st.get("C09", 0)}[prop]
    nt = {"C02": kinds.get("probe", 0) * 5 + kinds.get("auth", 0), "C03": (kinds.get("auth", 0) + kinds.get("auth-same-error", 0) + kinds.get("refused+invalid", 0)) * 5,
          "C05": (kinds.get("token", 0) + kinds.get("absent", 0) + kinds.get("absent+decoy", 0)) * 5, "C12": kinds.get("token", 0) + kinds.get("absent", 0) + kinds.get("fail", 0) + kinds.get("refused+invalid", 0) + kinds.get("status201", 0) + kinds.get("status202+fail", 0) + kinds.get("status503+fail", 0),
          "C09": st.get("C09nt", 0)}[prop]
    if ev == 0:
        raise c.Trouble("property %s was not exercised by the recording" % prop)
    sample = []
    for line in open(os.path.join(d, "records.ndjson")):
        r = json.loads(line)
        for q in (r.get("requests") or [])[:400]:
            if len(sample) < 3 and q["kind"] in {"C02": ("probe", "auth"), "C03": ("auth", "auth-same-error", "refused+invalid"), "C05": ("token", "absent", "absent+decoy"), "C12": ("fail", "token", "status202+fail", "status201"), "C09": ("auth",)}[prop]:
                sample.append({"case": r["id"], "kind": q["kind"], "verb": q["verb"], "url": q["url"], "script": q.get("script"), "tokens": q.get("toks")})
        if len(sample) >= 3:
            break
    models = meta["models"]
    cov = {"states": sum(m.get("states", 0) for m in models.values()), "transitions": sum(m.get("transitions", 0) for m in models.values()),
           "traces_validated_against_impl": ev, "evaluations": ev, "distinct_nontrivial": nt, "samples": sample or [{"note": "no sample"}],
           "projects": st["cases"], "engine_generations": st["gen"], "requests": st["requests"], "request_kinds": kinds, "models": models, "emission": meta["emission"],
           "rule": RULES[prop], "recording_wall_s": meta["wall"]}
    c.write_evidence(prop, tier, LEVELS[prop], cov, time.time() - t0,
                     ["requests are served in-process through net/http/httptest (fiber: app.Test, with fiber's recover middleware installed by the driver)",
                      "the authorization callback, the controllers and the vrec recorder are user-side code generated next to the project",
                      "requests whose concrete path a second same-verb template also matches, projects an engine refuses to register (overlapping templates), routes without a leading slash and methods returning a custom error type by value are outside the explored space",
                      "value tokens and their canonical conversions are data in Router.tla (trusted, reviewed against strconv)"], len(violations))
    c.finish(prop, violations, known_hits)


RULES = {
    "C02": "one evaluation per (request, engine) execution; non-trivial = negative probes (x5 engines) and authorised dispatches",
    "C03": "one evaluation per (request, engine); non-trivial = executions under an explicit approve/refuse script or unauthorised+invalid requests",
    "C05": "one evaluation per (request, engine); non-trivial = executions whose request differs from the all-valid one in one parameter (other token or absent)",
    "C12": "one evaluation per request (five engines compared); non-trivial = non-200 outcome classes and non-default tokens",
    "C09": "one evaluation per successful route generation (engine x project): go build of the generated package; non-trivial = project whose routes use types from other packages",
}
LEVELS = {"C02": "model_checking", "C03": "model_checking", "C05": "exploration", "C12": "model_checking", "C09": "exploration"}


def replay(path):
    data = json.load(open(path))
    prop = data["property"]
    v, g, sc = c.build_harness(), c.build_gleece(), c.scratch()
    rec = os.path.join(sc, "replay.rrec")
    router_run(v, g, data["case_file"], data["tokens_file"], rec, os.path.join(sc, "rworkr"))
    findings, _, _ = judge(v, rec, sc, "replay")
    found = [f for f in findings if f["prop"] == prop and classify(f) is None]
    if not found:
        print("replay: case conforms on this tree")
        return 0
    print("VIOLATION property=%s replay=%s" % (prop, path))
    print("  " + found[0]["what"])
    return 1
