"""Family F7 — the long-lived analysis session, property C19 (see spec/Session.tla).

  1. TLC checks the session machine Session.tla (every history of the five calls up to the bound keeps the flattened
     metadata, the graph, the serials, the diagnostics and the OpenAPI bytes those of a fresh session) and shows that each
     of the three mechanisms switched off violates its invariant (vacuity guards).
  2. TLC enumerates every history up to length 4 (quick) / 5 (thorough) plus seeded random longer ones and prints one
     CASE per history: per call, the equalities an observer must measure relative to a fresh session.
  3. A few accepted projects are taken from the pipeline family's TLC emission, concretised, measured in a fresh process
     (the fresh session), and every (project, history) pair of the plan runs in its own process on ONE GleecePipeline,
     followed by a brand-new pipeline in the same process (direction A: field-by-field comparison with TLC's expectation).
  4. The measured sequences are written as an NDJSON log and validated by TLC against SessionTrace.tla (direction B).
  5. A candidate is re-executed in isolation (new project directory, new processes) before it is reported.
"""
import concurrent.futures, json, os, random, re, subprocess, time
from . import common as c

PROP = "C19"


def emit_histories(tier, seed, sc):
    thorough = tier == "thorough"
    cfg = "Session_emit5.cfg" if thorough else "Session_emit4.cfg"
    out = os.path.join(sc, cfg + ".cases")
    r = c.tlc("SessionMC", cfg, workers=1, out_file=out, timeout=900)
    if r.rc == 124 or r.error or r.violated or not r.ok:
        raise c.Trouble("TLC emission run %s failed:\n%s" % (cfg, r.out[-2000:]))
    sim = os.path.join(sc, "Session_sim.cases")
    r2 = c.tlc("SessionMC", "Session_sim.cfg", workers=1, out_file=sim, simulate="num=%d" % (150 if thorough else 16), depth=12, seed_=seed, timeout=900)
    if r2.rc == 124 or r2.error or r2.violated:
        raise c.Trouble("TLC simulation run Session_sim.cfg failed:\n%s" % r2.out[-2000:])
    lines = [l for l in open(out) if l.startswith('"CASE ')]
    longs = sorted(set(l for l in open(sim) if l.startswith('"CASE ')))
    return lines, longs, r


def hist_of(line):
    return json.loads(json.loads(line)[5:])["hist"]


def emit_projects(tier, seed, sc):
    """Project cases exactly as the pipeline family emits them (TLC on PipelineMC)."""
    thorough = tier == "thorough"
    plan = [("Pipeline_sim.cfg", 300 if thorough else 40), ("Pipeline_c06sim.cfg", 300 if thorough else 40),
            ("Pipeline_c19sim.cfg", 300 if thorough else 40), ("Pipeline_c07sim.cfg", 300 if thorough else 40)]
    plan.append(("Pipeline_c06grp.cfg", None))      # exhaustive set (identifier lists in signatures), shuffled below

    def emit(item):
        cfgname, n = item
        out = os.path.join(sc, "proj-" + cfgname + ".cases")
        r = c.tlc("PipelineMC", cfgname, workers=1, out_file=out, simulate=("num=%d" % n) if n else None, depth=80 if n else None, seed_=seed, timeout=1500)
        if r.rc == 124 or r.error or r.violated:
            raise c.Trouble("TLC emission run %s failed:\n%s" % (cfgname, r.out[-2000:]))
        ls = [l for l in open(out) if l.startswith('"CASE ')]
        if not n:
            random.Random(seed).shuffle(ls)
        return ls

    with concurrent.futures.ThreadPoolExecutor(max_workers=5) as ex:
        parts = list(ex.map(emit, plan))
    # interleave the two input sets so that both kinds of project (several controllers / imported model types) are used
    lines = []
    for i in range(max(len(p) for p in parts)):
        for p in parts:
            if i < len(p):
                lines.append(p[i])
    if not lines:
        raise c.Trouble("no project cases from the pipeline specification")
    return lines


def session_run(v, cases, hists, out, work, projects, all_len, seed, only=None, after_every=1, baseline_repeats=3):
    meta = out + ".meta.json"
    cmd = [v, "session-run", "--cases", cases, "--hists", hists, "--out", out, "--meta", meta, "--repo", c.REPO, "--work", work,
           "--jobs", str(c.NCPU), "--projects", str(projects), "--all-len", str(all_len), "--seed", str(seed), "--after-every", str(after_every), "--baseline-repeats", str(baseline_repeats)]
    if only:
        cmd += ["--only-project", only]
    p = subprocess.run(cmd, stdout=subprocess.PIPE, stderr=subprocess.STDOUT, text=True)
    if p.returncode != 0:
        raise c.Trouble("session-run failed: " + p.stdout[-2000:])
    return json.load(open(meta))


def judge_and_validate(v, rec, sc, tag, isolated=False):
    """Direction A (field-by-field against TLC's expectation) and direction B (TLC accepts the log). Returns (judged, trace info)."""
    jp, tr, idx = rec + ".judged.json", os.path.join(sc, tag + ".trace.ndjson"), os.path.join(sc, tag + ".trace.idx")
    p = subprocess.run([v, "session-judge", "--records", rec, "--out", jp, "--trace", tr, "--index", idx], stdout=subprocess.PIPE, stderr=subprocess.STDOUT, text=True)
    if p.returncode != 0:
        raise c.Trouble("session-judge failed: " + p.stdout[-2000:])
    j = json.load(open(jp))
    lines = open(tr).read().splitlines()
    index = open(idx).read().splitlines()
    rejected = []
    total = len(lines)
    if not isolated:
        # sessions direction A already flags become candidates anyway (and are validated by TLC when re-executed in isolation);
        # everything else must be accepted by TLC as it stands
        flagged = set("%s %s" % (f["project"], ",".join(f["hist"])) for f in j["findings"])
        keep = [i for i in range(len(lines)) if index[i].split(" ", 1)[1] not in flagged]
        lines, index = [lines[i] for i in keep], [index[i] for i in keep]
    for _ in range(6):
        if not lines:
            break
        r = c.tlc("SessionTrace", "SessionTrace.cfg", workers=1, defines={"session_trace.ndjson": "\n".join(lines) + "\n"}, timeout=3000)
        if r.rc == 124 or r.violated or (r.error and not r.postcondition_false):
            raise c.Trouble("session trace validation failed to run:\n" + r.out[-2000:])
        k = r.depth - 1
        if k == len(lines) and not r.postcondition_false:
            break
        if k >= len(lines) or k < 0:
            raise c.Trouble("session trace validation: inconsistent depth %d for %d lines:\n%s" % (r.depth, len(lines), r.out[-1500:]))
        sid = index[k]
        rejected.append({"session": sid, "line": lines[k]})
        keep = [i for i in range(len(lines)) if index[i] != sid]
        lines, index = [lines[i] for i in keep], [index[i] for i in keep]
    else:
        raise c.Trouble("session trace validation: more than 5 sessions rejected; first: %s" % rejected[0])
    return j, {"events": total, "rejected": rejected}


def candidates_of(j, tv):
    """(project, hist, signature, text) per distinct signature."""
    out, seen = [], set()
    for f in sorted(j["findings"], key=lambda f: (len(f["hist"]), f["step"])):
        key = f["sig"]
        if key in seen:
            continue
        seen.add(key)
        out.append((f["project"], f["hist"], f["sig"], f["what"]))
    known = set((f["project"], ",".join(f["hist"])) for f in j["findings"])
    for rj in tv["rejected"]:
        _, proj, hist = rj["session"].split(" ", 2)
        if (proj, hist) not in known:
            out.append((proj, hist.split(","), "trace", "TLC (SessionTrace) does not accept the logged session %s at %s" % (rj["session"], rj["line"][:300])))
    return out


def one(v, sc, project_line, hist_line, tag):
    """Re-executes one (project, history) pair in isolation; returns the findings (direction A) and rejections (direction B)."""
    pc, hc = os.path.join(sc, tag + ".project.cases"), os.path.join(sc, tag + ".hist.cases")
    open(pc, "w").write(project_line)
    open(hc, "w").write(hist_line)
    rec = os.path.join(sc, tag + ".rec")
    # eight fresh processes must agree on the project before a difference is attributed to the session
    meta = session_run(v, pc, hc, rec, os.path.join(sc, "work-" + tag), 1, 99, c.seed(), baseline_repeats=8)
    if meta["sessions"] != 1:
        return None, None, meta
    j, tv = judge_and_validate(v, rec, sc, tag, isolated=True)
    if j["trouble"]:
        raise c.Trouble("isolated re-execution had harness trouble: " + j["trouble"][0])
    return j, tv, meta


def case_id(line):
    import hashlib
    return "c" + hashlib.sha256(json.loads(line).encode()).hexdigest()[:12]


def run(tier):
    t0 = time.time()
    seed = c.seed()
    rng = random.Random(seed)
    thorough = tier == "thorough"
    v = c.build_harness()
    sc = c.scratch()
    cov = {}

    # 1. design level
    r = c.tlc("SessionMC", "Session_model.cfg", workers=min(c.NCPU, 8), timeout=900)
    c.tlc_model_ok(r, "Session_model.cfg")
    cov["states"], cov["transitions"] = r.distinct, r.generated
    guards = {}
    for cfg, inv in (("Session_nogi.cfg", "C19_GraphStable"), ("Session_nosf.cfg", "C19_GraphStable"), ("Session_noct.cfg", "C19_FlatStable"), ("Session_nosm.cfg", "C19_SerialsStable"), ("Session_notouch.cfg", "C19_FlatStable")):
        g = c.tlc("SessionMC", cfg, workers=2, timeout=600)
        if inv not in g.violated:
            raise c.Trouble("%s was expected to violate %s (vacuity guard)\n%s" % (cfg, inv, g.out[-1500:]))
        guards[cfg] = {"violates": inv, "counterexample_len": g.depth}
    cov["vacuity_guards"] = guards
    c.log("session machine: %d histories up to length 6 keep every hand-out that of a fresh session; each mechanism switched off violates its invariant" % r.distinct)

    c.log("phase 1 (models) %.0fs" % (time.time() - t0))
    # 2. histories
    lines, longs, re_ = emit_histories(tier, seed, sc)
    cov["states"] += re_.distinct
    cov["transitions"] += re_.generated
    maxlen = 5 if thorough else 4
    if thorough:
        chosen = lines
    else:
        short = [l for l in lines if len(hist_of(l)) <= 3]
        four = [l for l in lines if len(hist_of(l)) == 4]
        chosen = short + rng.sample(four, min(len(four), 48))
    hists = os.path.join(sc, "session.hists")
    with open(hists, "w") as f:
        f.writelines(chosen + longs)
    cov["histories_enumerated_by_tlc"] = len(lines)
    cov["histories_replayed"] = len(chosen) + len(longs)
    cov["random_long_histories"] = len(longs)

    # 3. projects + sessions
    plines = emit_projects(tier, seed, sc)
    pcases = os.path.join(sc, "session.projects")
    with open(pcases, "w") as f:
        f.writelines(plines)
    rec = os.path.join(sc, "session.rec")
    c.log("phase 2 (emission of histories and projects) done at %.0fs" % (time.time() - t0))
    meta = session_run(v, pcases, hists, rec, os.path.join(sc, "swork"), 30 if thorough else 7, 2 if thorough else 1, seed, after_every=2 if thorough else 3)
    if meta["projects"] < (10 if thorough else 3) or meta["sessions"] == 0:
        raise c.Trouble("too few accepted projects for the session check (vacuous run): %s" % json.dumps(meta))
    c.log("sessions: %d projects (of %d candidates; skipped: %s), %d (project, history) processes" % (meta["projects"], meta["candidates"], meta["skipped"], meta["sessions"]))

    c.log("phase 3 (sessions) done at %.0fs" % (time.time() - t0))
    # 4. judge (A) + trace validation (B)
    j, tv = judge_and_validate(v, rec, sc, "main")
    if j["trouble"]:
        raise c.Trouble("harness trouble in the session recording: " + "; ".join(j["trouble"][:3]))
    if j["sessions"] == 0:
        raise c.Trouble("no session was judged (vacuous run)")
    c.log("direction A: %d sessions, %d call observations compared with TLC's expectations, %d differing; direction B: %d log lines, %d sessions rejected by TLC" %
          (j["sessions"], j["steps"], len(j["findings"]), tv["events"], len(tv["rejected"])))

    # 5. confirm in isolation
    violations, known_hits = [], []
    known = c.known_for(PROP)
    by_id = {case_id(l): l for l in plines}
    by_hist = {",".join(hist_of(l)): l for l in chosen + longs}
    seen = set()
    dropped = []
    for proj, hist, sig, what in candidates_of(j, tv)[:5]:
        pl, hl = by_id.get(proj), by_hist.get(",".join(hist))
        if pl is None or hl is None:
            raise c.Trouble("cannot find the case lines of candidate %s %s" % (proj, hist))
        j1, tv1, m1 = one(v, sc, pl, hl, "iso-%s-%d" % (proj, len(seen) + len(violations)))
        if j1 is None and any("fresh processes disagree" in k for k in m1.get("skipped", {})):
            # "the same as a brand-new session" is undefined where brand-new sessions differ among themselves
            c.log("NOTE candidate on project %s dropped: fresh processes disagree with each other on this project (non-determinism, C13's subject): %s" % (proj, what[:200]))
            dropped.append(proj)
            continue
        if j1 is None or not (j1["findings"] or tv1["rejected"]):
            raise c.Trouble("candidate for C19 on project %s history %s was not reproduced in isolation: %s" % (proj, ",".join(hist), what))
        text = j1["findings"][0]["what"] if j1["findings"] else what
        sig1 = j1["findings"][0]["sig"] if j1["findings"] else "trace"
        k = [x for x in known if x.get("signature") == sig1 or (x.get("match") and re.search(x["match"], text))]
        if k:
            if k[0]["signature"] not in seen:
                known_hits.append(k[0]["what"])
                seen.add(k[0]["signature"])
            continue
        path = c.save_replay(PROP, {"property": PROP, "family": "session", "project_case": pl, "hist_case": hl, "project": proj, "hist": hist, "what": text})
        violations.append((text, path))

    cov["traces_validated_against_impl"] = j["sessions"]
    cov["evaluations"] = j["steps"]
    cov["distinct_nontrivial"] = j["nontrivial"]
    cov["rule"] = ("one evaluation per call of a session (plus two for the brand-new pipeline created afterwards in the same process, after every 3rd (quick) / 2nd (thorough) session); "
                   "non-trivial = session whose history builds the graph at least twice (GenerateGraph/Run), i.e. one in which caches and the idempotency guard are exercised")
    cov["samples"] = j["samples"][:3] or [{"note": "no non-trivial sample"}]
    cov["exhaustive"] = True
    cov["exhaustive_note"] = "every history of the five calls up to length %d is enumerated by TLC; %s" % (
        maxlen, "all of them are replayed" if thorough else "all up to length 3 and a seeded sample of 48 of length 4 are replayed")
    cov["projects"] = j["projects"]
    cov["sessions_by_history_length"] = j["byLen"]
    cov["log_lines_validated_by_tlc"] = tv["events"]
    cov["project_selection"] = meta
    cov["candidates_dropped_for_nondeterministic_project"] = dropped
    c.write_evidence(PROP, tier, "model_checking", cov, time.time() - t0,
                     ["the project is fixed during a session (no file changes): cache invalidation on edits is outside this property",
                      "'accepted project' and 'fresh session' are measured on the real code in separate processes, never predicted; projects on which two fresh processes disagree are skipped (that is C13's subject)",
                      "graph equality across processes is equality of node/edge counts and of the multiset of node ids and edge keys with the token.Pos part removed (positions depend on the parse order of packages.Load); inside one process ids are compared exactly",
                      "the flattened metadata is compared as canonical JSON with the Imports map values and Models.Aliases sorted (both are produced in set / map order; order stability is C13's subject)",
                      "projects come from the choice sets of spec/PipelineMC.tla (Pipeline_sim: several controllers; Pipeline_c06sim: imported model types)"], len(violations))
    c.finish(PROP, violations, known_hits)


def replay(path):
    v = c.build_harness()
    sc = c.scratch()
    data = json.load(open(path))
    j1, tv1, m1 = one(v, sc, data["project_case"], data["hist_case"], "replay")
    if j1 is None:
        print("replay: the project is not usable on this tree (%s)" % json.dumps(m1))
        return 0 if any("fresh processes disagree" in k for k in m1.get("skipped", {})) else 2
    if not (j1["findings"] or tv1["rejected"]):
        print("replay: the session conforms on this tree")
        return 0
    print("VIOLATION property=%s replay=%s" % (PROP, path))
    print("  " + (j1["findings"][0]["what"] if j1["findings"] else "TLC rejects the logged session: " + tv1["rejected"][0]["line"][:300]))
    return 1
