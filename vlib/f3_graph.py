"""Family F3 — symbol graph, property C17.

  1. TLC exhaustive on SymbolGraph.tla: the design-level statements of C17 (views agree, idempotence, removal = least fix-point,
     version replacement) hold in every reachable state / step of the abstract model.
  2. Direction A: TLC enumerates every distinct state of a bounded configuration (one history per state, VIEW hides the history)
     and random deep walks (`-simulate`, seeded); each behaviour is replayed on a real symboldg.SymbolGraph and every public
     query answer is compared with the specification's derived views after the operation.
  3. Direction B: seeded random histories driven from Go are recorded (operation + all query answers) and validated by TLC
     against SymbolGraphTrace.tla (action of the spec + equality of the views + invariants at every step).
  4. Any candidate is confirmed in isolation: TLC is forced through that single history (SymbolGraphReplay.tla) and a fresh
     process replays it on the real graph; only a confirmed difference is reported.
"""
import json, os, subprocess, time
from . import common as c

PROP = "C17"
BIG = ["--dkeys", "k1,k2,k3", "--ukeys", "string,error"]


def _replay(v, cases, out, universe):
    p = subprocess.run([v, "graph-replay", "--cases", cases, "--out", out, "--max-mismatches", "200"] + universe,
                       stdout=subprocess.PIPE, stderr=subprocess.STDOUT, text=True)
    if p.returncode != 0:
        raise c.Trouble("graph-replay failed: " + p.stdout[-2000:])
    return json.load(open(out))


def confirm(v, hist):
    """Re-executes one history in isolation: fresh TLC run for the expected observations, fresh process for the real graph."""
    sc = c.scratch()
    ops = "".join(json.dumps(o) + "\n" for o in hist)
    out = os.path.join(sc, "confirm-%d.txt" % int(time.time() * 1e6))
    r = c.tlc("SymbolGraphImplReplay", "SymbolGraphImplReplay.cfg", workers=1, defines={"graph_ops.ndjson": ops}, out_file=out, timeout=300)
    if r.violated or r.error or r.postcondition_false or r.rc == 124:
        raise c.Trouble("TLC could not follow the candidate history on the model (spec-level problem):\n" + r.out[-2000:])
    rep = _replay(v, out, out + ".json", BIG)
    return rep["mismatches"][0] if rep["mismatches"] else None


def signature(m):
    import re
    last = m["hist"][m["step"] - 1]["op"] if m["step"] > 0 else "init"
    paths = sorted(set(re.sub(r"\.(k\d|string|error)\b", ".K", d.split(":")[0]) for d in m["diffs"]))
    return last + " " + ",".join(paths)


def run(tier):
    t0 = time.time()
    seed = c.seed()
    v = c.build_harness()
    sc = c.scratch()
    thorough = tier == "thorough"
    cov = {"samples": []}
    candidates = []   # histories (list of ops)

    # 1. design level ------------------------------------------------------------------------------------------------
    cfg = "SymbolGraph_medium.cfg" if thorough else "SymbolGraph_small.cfg"
    r = c.tlc("SymbolGraph", cfg, workers=min(c.NCPU, 12), timeout=3000)
    c.tlc_model_ok(r, "SymbolGraph/" + cfg)
    c.log("model: %d states generated, %d distinct, depth %d, %.0fs" % (r.generated, r.distinct, r.depth, r.wall))
    cov["states"] = r.distinct
    cov["transitions"] = r.generated
    cov["model_cfg"] = cfg
    # the graph as coded (four indices, RemoveNode over every order of the dependents) in lock step with the abstract model:
    # refinement, agreement of the indices, confluence of the cascade; and the vacuity guard (the pre-repair RemoveEdge breaks IndexAgree)
    icfgs = ["SymbolGraphImpl_small.cfg"] + (["SymbolGraphImpl_three.cfg", "SymbolGraphImpl_deep.cfg"] if thorough else [])
    cov["impl_models"] = {}
    for icfg in icfgs:
        ri = c.tlc("SymbolGraphImpl", icfg, workers=min(c.NCPU, 14), timeout=3000)
        c.tlc_model_ok(ri, "SymbolGraphImpl/" + icfg)
        cov["impl_models"][icfg] = {"states": ri.distinct, "transitions": ri.generated}
        cov["states"] += ri.distinct
        cov["transitions"] += ri.generated
        c.log("index-level model %s: %d distinct states; refinement, index agreement and confluence of RemoveNode hold" % (icfg, ri.distinct))
    rg = c.tlc("SymbolGraphImpl", "SymbolGraphImpl_asbuilt.cfg", workers=4, timeout=600)
    if "IndexAgree" not in rg.violated:
        raise c.Trouble("the pre-repair RemoveEdge (adjacency always dropped) was expected to violate IndexAgree (vacuity guard):\n" + rg.out[-1500:])
    cov["impl_models"]["SymbolGraphImpl_asbuilt.cfg"] = {"violates": "IndexAgree", "counterexample_len": rg.depth}

    # 2. direction A -------------------------------------------------------------------------------------------------
    replayed = 0
    nontrivial = 0
    transitions = set()
    runs = [("SymbolGraph", "SymbolGraph_emit_thorough.cfg" if thorough else "SymbolGraph_emit.cfg", None, None, ["--dkeys", "k1,k2", "--ukeys", "string"])]
    runs.append(("SymbolGraph", "SymbolGraph_emit3.cfg", None, None, ["--dkeys", "k1,k2,k3", "--ukeys", "string"]))
    # behaviours of the lock-step model carry the expected index contents as well as the public observation
    runs.append(("SymbolGraphImpl", "SymbolGraphImpl_emit.cfg", None, None, ["--dkeys", "k1,k2", "--ukeys", "string"]))
    runs.append(("SymbolGraphImpl", "SymbolGraphImpl_sim.cfg", "num=%d" % (3000 if thorough else 300), 40 if thorough else 30, BIG))
    idx_compared = 0
    for module, cfgname, sim, depth, uni in runs:
        out = os.path.join(sc, cfgname + ".cases")
        r = c.tlc(module, cfgname, workers=1, out_file=out, simulate=sim, depth=depth, seed_=seed, timeout=3000)
        if r.rc == 124 or r.error or r.violated:
            raise c.Trouble("TLC emission run %s failed:\n%s" % (cfgname, r.out[-2000:]))
        rep = _replay(v, out, out + ".json", uni)
        os.remove(out)
        c.log("direction A %s: %d behaviours, %d operations replayed, %d comparisons, %d mismatching" %
              (cfgname, rep["cases"], rep["ops"], rep["compared"], len(rep["mismatches"])))
        if rep["cases"] == 0:
            raise c.Trouble("emission run %s produced no behaviours" % cfgname)
        replayed += rep["cases"]
        idx_compared += rep.get("idx_compared", 0)
        nontrivial += rep["nontrivial"]
        cov["samples"] += rep["samples"][:2]
        cov.setdefault("runs", []).append({"cfg": cfgname, "behaviours": rep["cases"], "operations": rep["ops"],
                                           "comparisons": rep["compared"], "distinct_operations": rep["distinct_transitions"]})
        for m in sorted(rep["mismatches"], key=lambda m: m["step"])[:5]:
            candidates.append(m["hist"][:m["step"]])

    # 3. direction B -------------------------------------------------------------------------------------------------
    tr = os.path.join(sc, "graph_trace.ndjson")
    n, depth = (3000, 30) if thorough else (300, 20)
    subprocess.run([v, "graph-record", "--out", tr, "--n", str(n), "--depth", str(depth), "--maxset", "2", "--seed", str(seed)] + BIG, check=True)
    events = [json.loads(l) for l in open(tr)]
    r = c.tlc("SymbolGraphTrace", "SymbolGraphTrace.cfg", workers=1, defines={"graph_trace.ndjson": open(tr).read()}, timeout=3000)
    if r.error and not r.postcondition_false or r.rc == 124:
        raise c.Trouble("trace validation run failed:\n" + r.out[-2000:])
    matched = r.depth - 1
    c.log("direction B: %d events in %d histories recorded from the real graph; TLC matched %d" % (len(events), n, matched))
    if r.violated:
        raise c.Trouble("a model invariant failed during trace validation (spec-level problem):\n" + r.out[-2000:])
    cov["trace_events"] = len(events)
    cov["trace_histories"] = n
    if matched < len(events):
        # first unexplained event: rebuild its history since the last Reset
        i = matched
        start = max(j for j in range(i + 1) if events[j]["ev"] == "Reset")
        candidates.append([e["op"] for e in events[start + 1:i + 1]])

    # 4. confirm -----------------------------------------------------------------------------------------------------
    violations, known_hits, seen = [], [], set()
    known = c.known_for(PROP)
    for hist in sorted(candidates, key=len)[:8]:
        m = confirm(v, hist)
        if m is None:
            raise c.Trouble("candidate not reproduced in isolation (treated as machinery trouble): " + json.dumps(hist))
        sig = signature(m)
        if sig in seen:
            continue
        seen.add(sig)
        k = [f for f in known if f.get("signature") == sig]
        if k:
            known_hits.append(k[0]["what"])
            continue
        path = c.save_replay(PROP, {"property": PROP, "family": "graph", "hist": m["hist"][:m["step"]], "diffs": m["diffs"],
                                    "expected": m["expected"], "observed": m["observed"], "signature": sig})
        violations.append(("history %s: %s" % (json.dumps([[o["op"], o["k"], o["to"], o["kind"], o["set"]] for o in m["hist"][:m["step"]]]), "; ".join(m["diffs"][:4])), path))

    cov["index_states_compared"] = idx_compared
    if idx_compared == 0:
        raise c.Trouble("no index-level comparison took place (vacuous run)")
    cov["traces_validated_against_impl"] = replayed + n
    cov["evaluations"] = replayed + n
    cov["distinct_nontrivial"] = nontrivial
    cov["rule"] = ("behaviours = one history per distinct state of the bounded model (VIEW hides the history) + seeded random walks of the spec "
                   "+ seeded random histories recorded from the implementation; non-trivial = history containing a RemoveNode/RemoveEdge after >= 2 edges were inserted")
    cov["exhaustive"] = True
    c.write_evidence(PROP, tier, "model_checking", cov, time.time() - t0,
                     ["keys are fabricated from ast.Ident positions and gast.FileVersion values (public fields)",
                      "all operations address a key at the current version of its file (Touch models a file edit)",
                      "Children/Parents/Descendants are compared as sets (multiplicity and order are not part of the property)",
                      "TLC 1.8.0 and the Json community module are trusted"], len(violations))
    c.finish(PROP, violations, known_hits)


def replay(path):
    v = c.build_harness()
    data = json.load(open(path))
    m = confirm(v, data["hist"])
    if m is None:
        print("replay: history conforms on this tree")
        return 0
    print("VIOLATION property=%s replay=%s" % (PROP, path))
    print("  " + "; ".join(m["diffs"][:6]))
    return 1
