import json, sys, traceback
from . import common as c

FAMILIES = {
    "C17": ("f3_graph", None),
    "C15": ("f4_trie", None),
    "C16": ("f5_annot", None),
    "C02": ("f2_router", "C02"), "C03": ("f2_router", "C03"), "C05": ("f2_router", "C05"), "C09": ("f2_router", "C09"), "C12": ("f2_router", "C12"),
    "C01": ("f1_pipeline", "C01"), "C04": ("f1_pipeline", "C04"), "C08": ("f1_pipeline", "C08"), "C10": ("f1_pipeline", "C10"),
    "C13": ("f1_pipeline", "C13"), "C14": ("f1_pipeline", "C14"), "C06": ("f1_pipeline", "C06"), "C18": ("f1_pipeline", "C18"), "C07": ("f1_pipeline", "C07"), "C11": ("f1_pipeline", "C11"),
    "C20": ("f6_config", None),
    "C19": ("f7_session", None),
}


def main():
    if len(sys.argv) < 3:
        print("usage: check <Cxx> <quick|thorough> | check replay <path>")
        sys.exit(2)
    try:
        if sys.argv[1] == "replay":
            data = json.load(open(sys.argv[2]))
            modname = FAMILIES[data["property"]][0]
            mod = __import__("vlib." + modname, fromlist=["x"])
            sys.exit(mod.replay(sys.argv[2]))
        prop, tier = sys.argv[1], sys.argv[2]
        if prop not in FAMILIES or tier not in ("quick", "thorough"):
            print("unknown property/tier")
            sys.exit(2)
        modname, arg = FAMILIES[prop]
        mod = __import__("vlib." + modname, fromlist=["x"])
        if arg is None:
            mod.run(tier)
        else:
            mod.run(tier, arg)
    except c.Trouble as e:
        print("TROUBLE (exit 2, not a verdict): %s" % e)
        sys.exit(2)
    except SystemExit:
        raise
    except Exception:
        traceback.print_exc()
        print("TROUBLE (exit 2, not a verdict): internal error")
        sys.exit(2)


main()
