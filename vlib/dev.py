"""Development helper (not a registered check): run one input set of a family through the real code and print the findings.

  python3 -m vlib.dev f1 <cfg> [sim=N] [take=K] [flags...]      pipeline family: emit, pipe-run, judge, trace validation
  python3 -m vlib.dev f2 <cfg> [sim=N] [take=K] [full]          router family: emit, router-run, judge
"""
import json, os, random, sys, collections
from . import common as c
from . import f1_pipeline as f1
from . import f2_router as f2


def main():
    fam, cfg = sys.argv[1], sys.argv[2]
    sim = take = None
    flags = []
    for a in sys.argv[3:]:
        if a.startswith("sim="):
            sim = int(a[4:])
        elif a.startswith("take="):
            take = int(a[5:])
        else:
            flags.append(a)
    sc = c.scratch()
    v, g = c.build_harness(), c.build_gleece()
    out = os.path.join(sc, "dev.cases")
    r = c.tlc("PipelineMC", cfg, workers=1, out_file=out, simulate=("num=%d" % sim) if sim else None, depth=80 if sim else None, seed_=c.seed(), timeout=3000)
    if r.rc == 124 or r.error or r.violated:
        print(r.out[-3000:])
        sys.exit(2)
    part = os.path.join(sc, "dev.part")
    open(part, "w").close()
    n = f1.sample_cases(out, take or 10 ** 9, random.Random(c.seed()), part)
    print("cases:", n)
    if fam == "f1":
        rec = part + ".rec"
        f1.pipe_run(v, g, part, rec, os.path.join(sc, "work"), flags or ["--validate=false"])
        j = f1.judge(v, rec, os.path.join(sc, "judged.json"))
        tv = f1.validate_traces(v, rec, sc, "dev")
        print("accepted %d of %d; evaluated %s; nontrivial %s; trouble %s" % (j["accepted"], j["cases"], j["evaluated"], j["nontrivial"], j["trouble"][:3]))
        cnt = collections.Counter((f["prop"], f.get("class", "violation")) for f in j["findings"])
        print("findings:", dict(cnt))
        shown = collections.Counter()
        for f in j["findings"]:
            k = (f["prop"], f.get("class", "violation"))
            shown[k] += 1
            if shown[k] <= int(os.environ.get("DEV_SHOW", "3")):
                print("  ", f["prop"], f.get("class", "violation"), f["id"], f["what"][:int(os.environ.get("DEV_LEN", "600"))])
        print("trace events %d, viol %s" % (tv["events"], tv["viol"][:5]))
        if os.environ.get("DEV_CONFORM"):
            import time
            t0 = time.time()
            cf = f1.conform(v, rec, sc, "dev")
            print("conformance: %d events, %d runs, %d rejected, %.1fs" % (cf["events"], cf["runs"], len(cf["rejected"]), time.time() - t0))
            for x in cf["rejected"][:int(os.environ.get("DEV_SHOW", "3")) * 4]:
                print("   REJECT", x)
    else:
        tokens = os.path.join(sc, "tokens.txt")
        c.tlc("RouterMC", "Router_tokens.cfg", workers=1, out_file=tokens, timeout=300)
        rec = os.path.join(sc, "dev.rrec")
        f2.router_run(v, g, part, tokens, rec, os.path.join(sc, "rwork"), flags)
        findings, stats, kinds = f2.judge(v, rec, sc, "dev")
        print("stats", dict(stats), "kinds", dict(kinds))
        cnt = collections.Counter((f["prop"], f2.classify(f)) for f in findings)
        print("findings:", dict(cnt))
        shown = collections.Counter()
        for f in findings:
            k = (f["prop"], f2.classify(f))
            shown[k] += 1
            if shown[k] <= int(os.environ.get("DEV_SHOW", "3")):
                print("  ", f["prop"], f2.classify(f), f["id"], f["what"][:300], f.get("detail", "")[:500])


try:
    main()
except c.Trouble as e:
    print("TROUBLE", e)
    sys.exit(2)
