#!/bin/bash
# Runs a subset of the repository's own tests with the hooks compiled in (-tags verif) on a scratch copy of $VERIF_REPO and
# collects the hook events of every pipeline run they perform into $1 (NDJSON, one "Run" header per test process segment).
set -u
OUT=$1; shift
REPO=${VERIF_REPO:-/repo}
BASE=${VERIF_SCRATCH_BASE:-/var/tmp}
S=$(mktemp -d -p "$BASE" verif-repotests-XXXXXX)
trap 'rm -rf "$S"' EXIT
rsync -a --exclude .git "$REPO"/ "$S/repo"/
cd "$S/repo" || exit 2
export GOFLAGS=-mod=mod GOPROXY=off
unset GOTOOLCHAIN GOSUMDB
: > "$OUT"
for pkg in "$@"; do
  T="$S/trace.$(echo $pkg | tr '/.' '__').ndjson"
  VERIF_TRACE="$T" go test -tags verif -vet=off -count=1 -timeout 20m "$pkg" > "$S/out.txt" 2>&1
  echo "$pkg exit=$? events=$(wc -l < "$T" 2>/dev/null || echo 0)" >&2
  [ -f "$T" ] && sed "s#^{#{\"pkg\":\"$pkg\",#" "$T" >> "$OUT"
done
exit 0
