#!/usr/bin/env python3
"""Generates MANIFEST.json from the table below (single source of truth for the claimed checks)."""
import json, os
HERE = os.path.dirname(os.path.dirname(os.path.abspath(__file__)))
props = [json.loads(l) for l in open(os.path.join(HERE, "properties.jsonl"))]
ids = [p["id"] for p in props]

CLAIMED = {
 "C16": dict(level="exploration", design="DESIGN.md §3 C16, §10",
   text="Annotations.tla builds comment lines from token tables (names, values, JSON5 objects paired with their value, descriptions, free-text forms) and states the expected parse and the block rules as operators; TLC enumerates every single line and every block up to the bound, checks the design-level statements, and each block is parsed by the real AnnotationHolder through go/parser and gast.MapDocListToCommentBlock. A finite token grammar rather than all strings, hence exploration.",
   note="Trusted: the JSON5-text/value pairing table in the spec, the fixed unicode sample, TLC. Lines with empty value, characters outside the documented value alphabet or unbalanced braces count as 'not of the form'.",
   technique="TLA+ generator/oracle (Annotations.tla) enumerated by TLC; cases replayed into annotations.NewAnnotationHolder"),
 "C15": dict(level="model_checking", design="DESIGN.md §3 C15, §10",
   text="PathTrie.tla states Overlap/Flagged declaratively and transcribes the trie walk of paths.go operationally; TLC checks soundness, per-entry completeness and order-freedom of the operational model for every list within the bounds (and shows the text-keyed variant violates them). Every list up to the bound, all permutations and duplicates included, plus seeded random lists are replayed on the real paths.FindConflicts; seeded longer lists recorded from the real code are classified by TLC.",
   note="Entries are identified through distinct Meta.Receiver values; finite segment alphabet (literals a,b,c; parameters x,y,id; four spellings). Trusted: TLC, the projection in harness/cmd/vcheck/trie.go.",
   technique="TLA+ model (PathTrie.tla) checked with TLC; exhaustive small-scope replay of TLC-enumerated lists into paths.FindConflicts; recorded calls classified by TLC (PathTrieTrace.tla)"),
 "C17": dict(level="model_checking", design="DESIGN.md §3 C17, §10",
   text="TLC explores the abstract set-of-nodes/set-of-edges model exhaustively within small constants and checks the view-consistency, idempotence, least-fix-point removal and version-replacement statements; one history per distinct model state plus seeded random walks are replayed on the real symboldg.SymbolGraph with every public query answer compared after the operation, and seeded histories recorded from the real graph are validated by TLC against the same specification.",
   note="Assumes keys fabricated from ast.Ident/gast.FileVersion stand for real declarations; operations address a key at its file's current version; Children/Parents/Descendants compared as sets. Trusted: TLC, Json module, the projection code in harness/cmd/vcheck/graph.go.",
   technique="TLA+ model (SymbolGraph.tla) checked with TLC; TLC-generated behaviours replayed into the real graph; recorded traces validated by TLC (SymbolGraphTrace.tla)"),
}

NOT_YET = "machinery for this property is not built yet in this round; it is specified in DESIGN.md and will be claimed once its check is sound"

m = {
 "version": 1,
 "setup_cmd": "./tools/setup.sh",
 "hooks": {"guard": "verif", "enable": "go build -tags verif (the harness is built with -tags verif against /repo's working tree via a replace directive)",
           "baseline_off_cmd": "./tools/baseline.sh", "source_commits": [], "add_only": True},
 "engines": [{"name": "tlc+vcheck", "path": "check", "serves_properties": sorted(CLAIMED), "kind_free_text": "TLA+ specifications in spec/ checked with TLC; Go conformance harness in harness/ (replay of TLC behaviours, trace recording); orchestration in vlib/"}],
 "checks": [],
 "notes": "Exit 2 from a check means machinery trouble (never a verdict). known_findings.json lists recorded findings and fixed defects.",
 "not_applicable": [],
}
for i in ids:
    if i in CLAIMED:
        c = CLAIMED[i]
        m["checks"].append({"property_id": i, "quick_cmd": "./check %s quick" % i, "thorough_cmd": "./check %s thorough" % i,
                            "evidence_file": "evidence/%s.json" % i, "replay_cmd_template": "./check replay {path}", "engine": "tlc+vcheck",
                            "level_claimed": {"category": c["level"], "text": c["text"], "design_ref": c["design"]},
                            "level_note": c["note"], "technique": c["technique"]})
    else:
        m["not_applicable"].append({"property_id": i, "reason": NOT_YET})
hooks = os.path.join(HERE, "hooks_commits.txt")
if os.path.exists(hooks):
    m["hooks"]["source_commits"] = [l.strip() for l in open(hooks) if l.strip()]
json.dump(m, open(os.path.join(HERE, "MANIFEST.json"), "w"), indent=1)
print("MANIFEST.json: %d claimed, %d not claimed" % (len(m["checks"]), len(m["not_applicable"])))
