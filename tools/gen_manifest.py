#!/usr/bin/env python3
"""Generates MANIFEST.json from the table below (single source of truth for the claimed checks)."""
import json, os
HERE = os.path.dirname(os.path.dirname(os.path.abspath(__file__)))
props = [json.loads(l) for l in open(os.path.join(HERE, "properties.jsonl"))]
ids = [p["id"] for p in props]

F1note = "'Accepted' is bound to the observed exit status. Inputs come from the finite choice sets of spec/PipelineMC.tla. The OpenAPI document is read by a plain JSON walk (harness/cmd/vcheck/openapi.go). One recording per (tree, tier, seed) is shared by the pipeline family and cached under .cache/ keyed by the content hash of the repository and of the machinery. Trusted: TLC, Json module, the concretiser/projector pair."
F1tech = "TLA+ model (Project.tla + Pipeline.tla) checked with TLC; TLC-generated projects concretised and run through the real CLI; hook traces validated by TLC (PipelineTrace.tla)"
F2NOTE = "Requests are served in-process (httptest; fiber app.Test with the recover middleware). The callback, controllers and recorder are user-side code generated next to the project. Outside the explored space: concrete paths a second same-verb template also matches, projects an engine refuses to register, routes without leading slash or with a placeholder glued to literal text, methods returning a custom error type by value, template overrides. One recording per (tree, tier, seed), cached. Trusted: TLC, token table, the driver generator."
F2TECH = "TLA+ handler machine (Router.tla) model-checked with TLC; traces recorded from the five generated routers validated by TLC (RouterTrace.tla)"
CLAIMED = {
 "C02": dict(level="model_checking", design="DESIGN.md §3 C02, §10",
   text="Served/DocumentedOps and the theorem 'documented is a subset of served, the difference is the hidden routes' are checked by TLC on Project/Pipeline; Router.tla's Dispatch is model-checked. On the code, the real generator produces the five engines' routers for TLC-generated projects, one driver binary serves every annotated verb/path (hidden ones included) and negative probes (other verbs, extra segments, unknown paths) through httptest, controllers record who was called, and TLC (RouterTrace.tla) judges each execution: the annotated method and no other is reached, un-annotated pairs reach nothing.",
   note=F2NOTE, technique=F2TECH),
 "C03": dict(level="model_checking", design="DESIGN.md §3 C03, §10",
   text="Router.tla: AuthCheck/Refuse/ParseParam/Invoke with invariants gate-before-invoke, parse-after-gate, alternatives in order, all-refused => last refusal's status; model-checked over all scripts. On the code every approve/refuse script of the callback (all 2^n vectors) plus unauthorised+invalid requests are served on the five engines; the scripted, recording callback and controllers give the observed call sequence, which TLC compares with RunOf (effective security from Project.tla: method, else controller, else default).",
   note=F2NOTE, technique=F2TECH),
 "C05": dict(level="exploration", design="DESIGN.md §3 C05, §10",
   text="Bind/Convert are a token table in Router.tla (per Go type: raw wire value, fits, canonical JSON of the converted value; boundary integers, unicode, URL-reserved characters, slices, enum, JSON bodies). For every handler every token of every parameter and absence is sent on the five engines; echoing controllers record the received arguments; TLC compares arguments, 422 rule and status with RunOf. Boundary tables, not all values: exploration.",
   note=F2NOTE, technique=F2TECH),
 "C09": dict(level="exploration", design="DESIGN.md §3 C09, §10",
   text="Whenever `generate routes` exits 0 for a TLC-generated project and engine, the written package is compiled with go build against the engine, the user's controller packages and authorization package, and gofmt -l is recorded; the Go compiler is the oracle, the specification supplies the input space (names, packages, imported types, five engines).",
   note=F2NOTE, technique="TLC-generated projects; real generator; go build of the generated package as measured event"),
 "C12": dict(level="model_checking", design="DESIGN.md §3 C12, §10",
   text="Router.tla has no engine variable. For every request of the C02/C03/C05 space the observable outcome (invoked method, arguments, status, JSON-normalised body) of the five engines' routers built from the same project is compared by TLC (Cmp events), and each engine's execution is individually accepted by RouterTrace.",
   note=F2NOTE, technique=F2TECH),
 "C20": dict(level="model_checking", design="DESIGN.md §3 C20, §10",
   text="Config.tla models the configuration document (46 fields -> value tokens), RuleTable restates every validate: tag and custom validator, ExpectedOutputs the honoured-in-output facts; the session machine is model-checked (C20_ConfigFirst, C20_RejectedIsFinal, C20_OnlyValidProceeds, C20_Honoured). Every single-field corruption, optional-field subsets, engines x versions x permission strings x glob sets are emitted by TLC, run through the real CLI in fresh processes (hooks on) and judged: invalid => exit != 0, ConfigRejected before any PackagesLoad, empty fs delta, message names a field at fault; valid => exactly the configured files with expected mode, package, engine marker, version, info/servers/schemes and glob-selected controllers.",
   note="String predicates (URL, e-mail, first-letter, existing directory) are token tables in the spec. The CLI runs under umask 0. Cross-references no tag declares are out of scope. Trusted: TLC, the concretiser.", technique="TLA+ model (Config.tla) checked with TLC; TLC-generated configuration documents run through the real CLI; hook-trace ordering rules"),
 "C06": dict(level="model_checking", design="DESIGN.md §3 C06, §10",
   text="ExpectedOperation (parameters in signature order with wire name/location/requiredness/schema, JSON or form body, success and error responses) is an operator of Project.tla over the method's signature and annotations; TLC generates methods over every single parameter kind/location/pointer-ness/alias/validator and pairs/triples of representatives, seven return shapes, error-response lists and @Response; the operations of both OpenAPI documents written by the real CLI are compared field by field with the expectation.",
   note=F1note, technique=F1tech),
 "C10": dict(level="model_checking", design="DESIGN.md §3 C10, §10",
   text="WellLinked is an operator of Project.tla (with a named as-built variant for the one recorded validator gap); TLC applies every single perturbation (drop/duplicate/rename/retarget/retype of annotations, parameters, placeholders at method and controller level, return list, verb) and sampled double perturbations to two base routes; the diagnostics of the real GenerateGraph+Validate decide acceptance per route, which must equal WellLinked, and any error diagnostic must make the CLI fail with the file system untouched (also checked by TLC on the hook traces).",
   note=F1note, technique=F1tech),
 "C18": dict(level="model_checking", design="DESIGN.md §3 C18, §10",
   text="Every diagnostic the real validators produce on the perturbed projects is measured against the source text (file exists and is the declaring file, 0-based range inside the file and inside the doc comment/declaration of the entity, start <= end, text covered by value diagnostics, duplicates in the list and in the command's error text) and the measurements are judged by the stated rules; the perturbation space is the TLC-enumerated one of C10.",
   note=F1note + " Layout variation (multibyte text before the token, several controllers per file) is limited to what the generated projects contain; code/severity tables are checked only through C10's acceptance verdicts.", technique=F1tech),
 "C01": dict(level="model_checking", design="DESIGN.md §3 C01, §10",
   text="Project.tla states DocumentedOps declaratively; Pipeline.tla models the session and TLC checks on it that the written document is DocumentedOps in every terminal state. TLC enumerates / random-walks projects (controllers, packages, files, prefixes, routes, verbs, hidden/deprecated); each is concretised into a Go module and run through the real CLI for both OpenAPI versions; the operations found in the written documents are compared with the expectation TLC printed.",
   note="'Accepted' is bound to the observed exit status. Inputs come from the finite choice sets of spec/PipelineMC.tla. The OpenAPI document is read by a plain JSON walk (harness/cmd/vcheck/openapi.go). One recording per (tree, tier, seed) is shared by the pipeline family and cached under .cache/ keyed by the content hash of the repository and of the machinery. Trusted: TLC, Json module, the concretiser/projector pair.", technique='TLA+ model (Project.tla + Pipeline.tla) checked with TLC; TLC-generated projects concretised and run through the real CLI; hook traces validated by TLC (PipelineTrace.tla)'),
 "C04": dict(level="model_checking", design="DESIGN.md §3 C04, §10",
   text="EffectiveSecurity/SchemesDeclared/EnforceOk are operators of Project.tla; TLC enumerates every combination of method/controller/default security shapes x enforce x declared/undeclared scheme x both versions for one route (400 cases) plus random multi-route projects; the real CLI's documents and exit status are compared with the expectations, and the enforce/undeclared rules are checked on rejected runs.",
   note="'Accepted' is bound to the observed exit status. Inputs come from the finite choice sets of spec/PipelineMC.tla. The OpenAPI document is read by a plain JSON walk (harness/cmd/vcheck/openapi.go). One recording per (tree, tier, seed) is shared by the pipeline family and cached under .cache/ keyed by the content hash of the repository and of the machinery. Trusted: TLC, Json module, the concretiser/projector pair.", technique='TLA+ model (Project.tla + Pipeline.tla) checked with TLC; TLC-generated projects concretised and run through the real CLI; hook traces validated by TLC (PipelineTrace.tla)'),
 "C08": dict(level="model_checking", design="DESIGN.md §3 C08, §10",
   text="Ordering (validate before write, 3.1 only after 3.0 validated) is an action property of Pipeline.tla checked by TLC and re-checked on the hook trace of every real run by PipelineTrace.tla; closure ($ref targets, placeholders vs path parameters, parameter uniqueness, response descriptions, enum value types, info/servers) is measured on the written bytes of every spec file that appears, by a plain JSON walk.",
   note="'Accepted' is bound to the observed exit status. Inputs come from the finite choice sets of spec/PipelineMC.tla. The OpenAPI document is read by a plain JSON walk (harness/cmd/vcheck/openapi.go). One recording per (tree, tier, seed) is shared by the pipeline family and cached under .cache/ keyed by the content hash of the repository and of the machinery. Trusted: TLC, Json module, the concretiser/projector pair.", technique='TLA+ model (Project.tla + Pipeline.tla) checked with TLC; TLC-generated projects concretised and run through the real CLI; hook traces validated by TLC (PipelineTrace.tla)'),
 "C13": dict(level="model_checking", design="DESIGN.md §3 C13, §10",
   text="Pipeline.tla makes the code's non-determinism explicit (file visit order, FindByKind order, first-come serials) and TLC checks that the terminal artifacts do not depend on the schedule (and that they do when serials are handed out before sorting). On the code, every accepted multi-controller case is re-run in fresh processes (Go map randomisation) and under eight forced schedules replayed through the Permute hook; routes and spec bytes must be identical.",
   note="'Accepted' is bound to the observed exit status. Inputs come from the finite choice sets of spec/PipelineMC.tla. The OpenAPI document is read by a plain JSON walk (harness/cmd/vcheck/openapi.go). One recording per (tree, tier, seed) is shared by the pipeline family and cached under .cache/ keyed by the content hash of the repository and of the machinery. Trusted: TLC, Json module, the concretiser/projector pair.", technique='TLA+ model (Project.tla + Pipeline.tla) checked with TLC; TLC-generated projects concretised and run through the real CLI; hook traces validated by TLC (PipelineTrace.tla)'),
 "C16": dict(level="exploration", design="DESIGN.md §3 C16, §10",
   text="Annotations.tla builds comment lines from token tables (names, values, JSON5 objects paired with their value, descriptions, free-text forms) and states the expected parse and the block rules as operators; TLC enumerates every single line and every block up to the bound, checks the design-level statements, and each block is parsed by the real AnnotationHolder through go/parser and gast.MapDocListToCommentBlock. A finite token grammar rather than all strings, hence exploration.",
   note="Trusted: the JSON5-text/value pairing table in the spec, the fixed unicode sample, TLC. Lines with empty value, characters outside the documented value alphabet or unbalanced braces count as 'not of the form'.",
   technique="TLA+ generator/oracle (Annotations.tla) enumerated by TLC; cases replayed into annotations.NewAnnotationHolder"),
 "C15": dict(level="model_checking", design="DESIGN.md §3 C15, §10",
   text="PathTrie.tla states Overlap/Flagged declaratively and transcribes the trie walk of paths.go operationally; TLC checks soundness, per-entry completeness and order-freedom of the operational model for every list within the bounds (and shows the text-keyed variant violates them). Every list up to the bound, all permutations and duplicates included, plus seeded random lists are replayed on the real paths.FindConflicts; seeded longer lists recorded from the real code are classified by TLC.",
   note="Entries are identified through distinct Meta.Receiver values; finite segment alphabet (literals a,b,c; parameters x,y,id; four spellings). Trusted: TLC, the projection in harness/cmd/vcheck/trie.go.",
   technique="TLA+ model (PathTrie.tla) checked with TLC; exhaustive small-scope replay of TLC-enumerated lists into paths.FindConflicts; recorded calls classified by TLC (PathTrieTrace.tla)"),
 "C17": dict(level="model_checking", design="DESIGN.md §3 C17, §10",
   text="TLC explores the abstract set-of-nodes/set-of-edges model exhaustively within small constants and checks the view-consistency, idempotence, least-fix-point removal and version-replacement statements; one history per distinct model state plus seeded random walks are replayed on the real symboldg.SymbolGraph with every public query answer compared after the operation, and seeded histories recorded from the real graph are validated by TLC against the same specification.",
   note="Assumes keys fabricated from ast.Ident/gast.FileVersion stand for real declarations; operations address a key at its file's current version; Children/Parents/Descendants compared as sets. Trusted: TLC, Json module, the projection code in harness/cmd/vcheck/graph.go.",
   technique="TLA+ model (SymbolGraph.tla) checked with TLC; TLC-generated behaviours replayed into the real graph; recorded traces validated by TLC (SymbolGraphTrace.tla)"),
}

NOT_YET = "machinery for this property is not built yet in this round; it is specified in DESIGN.md and will be claimed once its check is sound"

m = {
 "version": 1,
 "setup_cmd": "./tools/setup.sh",
 "hooks": {"guard": "verif", "enable": "go build -tags verif (the harness is built with -tags verif against /repo's working tree via a replace directive)",
           "baseline_off_cmd": "./tools/baseline.sh", "source_commits": [], "add_only": True},
 "engines": [{"name": "tlc+vcheck", "path": "check", "serves_properties": sorted(CLAIMED), "kind_free_text": "TLA+ specifications in spec/ checked with TLC; Go conformance harness in harness/ (replay of TLC behaviours, trace recording); orchestration in vlib/"}],
 "checks": [],
 "notes": "Exit 2 from a check means machinery trouble (never a verdict). known_findings.json lists recorded findings and fixed defects.",
 "not_applicable": [],
}
for i in ids:
    if i in CLAIMED:
        c = CLAIMED[i]
        m["checks"].append({"property_id": i, "quick_cmd": "./check %s quick" % i, "thorough_cmd": "./check %s thorough" % i,
                            "evidence_file": "evidence/%s.json" % i, "replay_cmd_template": "./check replay {path}", "engine": "tlc+vcheck",
                            "level_claimed": {"category": c["level"], "text": c["text"], "design_ref": c["design"]},
                            "level_note": c["note"], "technique": c["technique"]})
    else:
        m["not_applicable"].append({"property_id": i, "reason": NOT_YET})
hooks = os.path.join(HERE, "hooks_commits.txt")
if os.path.exists(hooks):
    m["hooks"]["source_commits"] = [l.strip() for l in open(hooks) if l.strip()]
json.dump(m, open(os.path.join(HERE, "MANIFEST.json"), "w"), indent=1)
print("MANIFEST.json: %d claimed, %d not claimed" % (len(m["checks"]), len(m["not_applicable"])))
