#!/bin/bash
# Offline setup after a fresh restore: nothing to download; warm the Go build cache by building the harness once
# and check the TLA+ modules parse. Every check rebuilds the harness from /repo's working tree anyway.
cd "$(dirname "$0")/.." || exit 1
export GOFLAGS=-mod=mod GOPROXY=off
unset GOTOOLCHAIN GOSUMDB
python3 - <<'PY'
import sys
sys.path.insert(0, '.')
from vlib import common as c
c.build_harness()
print("setup ok")
PY
