#!/usr/bin/env python3
"""fileseed.py <seed-id> <property> <caught-by|MISSED> <what I ran...>: files a confirmed seeded defect under /verif/seeded/<id>/."""
import json, os, shutil, sys
sid, prop, caught = sys.argv[1], sys.argv[2], sys.argv[3]
src = "/tmp/seeded/" + sid
dst = "/verif/seeded/" + sid
os.makedirs(dst, exist_ok=True)
shutil.copy(src + "/patch.diff", dst + "/patch.diff")
if os.path.isdir(dst + "/demo"):
    shutil.rmtree(dst + "/demo")
shutil.copytree(src + "/demo", dst + "/demo")
meta = json.load(open(src + "/meta.json"))
log = open("/tmp/seedcheck_%s.log" % sid).read() if os.path.exists("/tmp/seedcheck_%s.log" % sid) else ""
lines = [l for l in log.splitlines() if not l.startswith("[verif]")]
out = {"property": prop, "breaks": meta.get("summary", ""), "needs_to_manifest": meta.get("needs_to_manifest", ""),
       "files_changed": meta.get("files_changed", []), "author": "independent sub-agent given only the property text and a scratch worktree",
       "confirmed_by_me": {"what_i_ran": "tools/seedcheck.sh in the agent's scratch worktree: demo without patch (pass), git apply patch.diff, go build ./... and -tags verif, demo with patch (fail), tools/baseline.sh on the patched tree (37 stable tests pass), then ./check %s quick with VERIF_REPO pointing at the patched tree" % prop,
                           "log_tail": lines[-14:]},
       "detected_by": caught}
json.dump(out, open(dst + "/meta.json", "w"), indent=1)
print("filed", dst)
