#!/usr/bin/env python3
"""Rewrites the seeded-defect table of DESIGN.md (between the SEEDTABLE markers) from seeded/*/meta.json."""
import glob, json, os, re
HERE = os.path.dirname(os.path.dirname(os.path.abspath(__file__)))
rows = []
for d in sorted(glob.glob(os.path.join(HERE, "seeded", "*"))):
    m = json.load(open(os.path.join(d, "meta.json")))
    need = re.sub(r"\s+", " ", m.get("needs_to_manifest", "")).strip()
    if len(need) > 230:
        need = need[:227] + "..."
    det = re.sub(r"\s+", " ", m.get("detected_by", "")).strip()
    first = "caught" if "(VIOLATION)" in det and ";" not in det and "MISSED" not in det else "extended"
    rows.append("| %s | %s | %s | %s | %s |" % (os.path.basename(d), m["property"], ", ".join(os.path.basename(f) for f in m.get("files_changed", []))[:70],
                                                need.replace("|", "\\|"), det.replace("|", "\\|")[:260]))
table = "| seed | property | files changed | what it needs to manifest | detected by (and what was extended, if the first run missed it) |\n|---|---|---|---|---|\n" + "\n".join(rows)
p = os.path.join(HERE, "DESIGN.md")
s = open(p).read()
a, b = "<!-- SEEDTABLE:BEGIN -->", "<!-- SEEDTABLE:END -->"
if a in s:
    s = s[:s.index(a) + len(a)] + "\n" + table + "\n" + s[s.index(b):]
    open(p, "w").write(s)
print(len(rows), "rows")
