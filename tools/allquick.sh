#!/bin/bash
# usage: allquick.sh <seed> [tier]  — every registered check once with the given seed; one summary line per check (self-test helper)
cd "$(dirname "$0")/.." || exit 2
SEED=${1:-1}; TIER=${2:-quick}
for c in C01 C02 C03 C04 C05 C06 C07 C08 C09 C10 C11 C12 C13 C14 C15 C16 C17 C18 C19 C20; do
  s=$(date +%s)
  VERIF_SEED=$SEED ./check $c $TIER > /tmp/allquick_${SEED}_${TIER}_$c.log 2>&1
  rc=$?
  echo "$c seed=$SEED tier=$TIER rc=$rc secs=$(( $(date +%s) - s )) viol=$(grep -c '^VIOLATION' /tmp/allquick_${SEED}_${TIER}_$c.log) known=$(grep -c '^KNOWN-FINDING' /tmp/allquick_${SEED}_${TIER}_$c.log) $(grep -m1 -E '^TROUBLE|^VIOLATION' /tmp/allquick_${SEED}_${TIER}_$c.log | cut -c1-160)"
done
