#!/bin/bash
# usage: seedcheck.sh <worktree> <seed-dir> <check-id...>
# Confirms a seeded defect in a scratch worktree: applies patch.diff, builds, runs the repository suite (baseline), runs the
# demonstration with and without the patch, then runs the given checks against the patched tree (VERIF_REPO) and reverts.
WT=$1; SD=$2; shift 2
export GOFLAGS=-mod=mod GOPROXY=off
unset GOTOOLCHAIN GOSUMDB
cd "$WT" || exit 2
git checkout -q -- . ; mkdir -p seeddemo; cp -r "$SD"/demo/*.go seeddemo/ 2>/dev/null
echo "== demo without patch"; go test -vet=off -count=1 ./seeddemo/ 2>&1 | tail -3
git apply "$SD/patch.diff" || { echo "PATCH DOES NOT APPLY"; exit 2; }
echo "== build"; go build ./... && go build -tags verif ./... && echo build-ok
echo "== demo with patch"; go test -vet=off -count=1 ./seeddemo/ 2>&1 | tail -5
if [ -z "$SKIP_BASELINE" ]; then echo "== baseline with patch"; VERIF_REPO="$WT" /verif/tools/baseline.sh 2>&1 | tail -4; fi
for c in "$@"; do echo "== check $c against patched tree"; (cd /verif && VERIF_REPO="$WT" VERIF_NOCACHE=1 ./check $c quick 2>&1 | tail -6); echo "exit=$?"; done
git checkout -q -- .
