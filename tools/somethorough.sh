#!/bin/bash
# usage: somethorough.sh <ids...> — thorough tier of the given checks, one summary line each (self-test helper)
cd "$(dirname "$0")/.." || exit 2
for c in "$@"; do
  s=$(date +%s)
  ./check $c thorough > /tmp/thorough_$c.log 2>&1
  rc=$?
  echo "$c thorough rc=$rc secs=$(( $(date +%s) - s )) viol=$(grep -c '^VIOLATION' /tmp/thorough_$c.log) known=$(grep -c '^KNOWN-FINDING' /tmp/thorough_$c.log) $(grep -m1 -E '^TROUBLE|^VIOLATION' /tmp/thorough_$c.log | cut -c1-200)"
done
