#!/bin/bash
# Runs the repository's pinned baseline suite with the verif guard OFF on a scratch copy of $VERIF_REPO (default /repo)
# (the e2e tests rewrite files inside the tree, so never in place) and compares with BASELINE.json's stable_pass list.
set -u
REPO=${VERIF_REPO:-/repo}
BASE=${VERIF_SCRATCH_BASE:-/var/tmp}
S=$(mktemp -d -p "$BASE" verif-baseline-XXXXXX)
trap 'rm -rf "$S"' EXIT
rsync -a --exclude .git "$REPO"/ "$S/repo"/
cd "$S/repo" || exit 2
export GOFLAGS=-mod=mod GOPROXY=off
unset GOTOOLCHAIN GOSUMDB
go test -json -vet=off -count=1 -timeout 25m ./... > "$S/out.json" 2> "$S/err.txt"
python3 - "$S/out.json" <<'PY'
import json,sys
want=set(json.load(open('/root/.vp/BASELINE.json'))['stable_pass']) if __import__('os').path.exists('/root/.vp/BASELINE.json') else set()
res={}
for l in open(sys.argv[1]):
    try: e=json.loads(l)
    except Exception: continue
    if e.get('Test') and '/' not in e['Test'] and e.get('Action') in('pass','fail'):
        res[e['Package']+'::'+e['Test']]=e['Action']
passed={k for k,v in res.items() if v=='pass'}
missing=sorted(want-passed)
print("baseline: %d passed, %d failed, %d of %d stable tests missing"%(len(passed),len(res)-len(passed),len(missing),len(want)))
for m in missing: print("  MISSING/FAILED:",m)
sys.exit(1 if missing else 0)
PY
