#!/usr/bin/env python3
import json, sys, glob
try:
    import jsonschema
except ImportError:
    sys.path.insert(0, "/opt/veriftools/pyvenv/lib/python3.11/site-packages")
    import jsonschema
jsonschema.validate(json.load(open('/verif/MANIFEST.json')), json.load(open('/root/.vp/MANIFEST.schema.json')))
s = json.load(open('/root/.vp/EVIDENCE.schema.json'))
for f in sorted(glob.glob('/verif/evidence/*.json')):
    jsonschema.validate(json.load(open(f)), s)
    print("valid", f)
print("manifest valid")
