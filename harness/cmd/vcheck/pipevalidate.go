package main

// pipe-validate1 runs the analysis half of the pipeline in-process on one concretised project (GenerateGraph + Validate, the
// calls an editor integration makes) and prints the diagnostics together with measurements of where each one points:
// does the file exist, does the 0-based range lie inside the file, inside the declaration or doc comment of the entity it is
// attached to, is start <= end, which text does it cover. The measurements are facts about the source text; judging them is
// left to the specification's rules (C10, C18).

import (
	"encoding/json"
	"flag"
	"fmt"
	"go/ast"
	"go/parser"
	"go/token"
	"os"
	"path/filepath"
	"strings"

	"github.com/gopher-fleece/gleece/v2/cmd"
	"github.com/gopher-fleece/gleece/v2/core/pipeline"
	"github.com/gopher-fleece/gleece/v2/core/validators/diagnostics"
	"github.com/gopher-fleece/gleece/v2/infrastructure/logger"
)

func init() {
	commands["pipe-validate1"] = pipeValidate1
}

type vDiag struct {
	Entity      []string `json:"entity"` // path of "Kind:Name" from the root entity
	Code        string   `json:"code"`
	Severity    int      `json:"severity"`
	Message     string   `json:"message"`
	File        string   `json:"file"` // relative to the project
	Range       [4]int   `json:"range"`
	FileExists  bool     `json:"fileExists"`
	InFile      bool     `json:"inFile"`
	Ordered     bool     `json:"ordered"`
	InDecl      bool     `json:"inDecl"`      // inside doc comment + declaration of the controller/method the entity names
	DeclFile    string   `json:"declFile"`    // file that declares that controller/method ("" = not found)
	Covered     string   `json:"covered"`     // text covered by the range (single-line ranges only)
	MultiByteBefore bool `json:"multiByteBefore"`
}

type vResult struct {
	Stage    string  `json:"stage"` // "config" | "pipeline" | "graph" | "validate" | "ok"
	Err      string  `json:"err,omitempty"`
	Panic    string  `json:"panic,omitempty"`
	Diags    []vDiag `json:"diags"`
	ErrText  string  `json:"errText,omitempty"` // what Run() would print: DiagnosticsToError of the error entities
	Entities int     `json:"entities"`
}

type declSpan struct {
	file       string
	start, end token.Position
}

// declIndex maps "Controller:Name" / "Receiver:Name" to the span (doc comment start .. declaration end) in the project's sources.
func declIndex(root string) map[string][]declSpan {
	idx := map[string][]declSpan{}
	fset := token.NewFileSet()
	filepath.Walk(root, func(p string, info os.FileInfo, err error) error {
		if err != nil || info.IsDir() || !strings.HasSuffix(p, ".go") {
			return nil
		}
		f, err := parser.ParseFile(fset, p, nil, parser.ParseComments)
		if err != nil {
			return nil
		}
		for _, d := range f.Decls {
			switch t := d.(type) {
			case *ast.FuncDecl:
				start := t.Pos()
				if t.Doc != nil {
					start = t.Doc.Pos()
				}
				idx["Receiver:"+t.Name.Name] = append(idx["Receiver:"+t.Name.Name], declSpan{p, fset.Position(start), fset.Position(t.End())})
			case *ast.GenDecl:
				for _, s := range t.Specs {
					if ts, ok := s.(*ast.TypeSpec); ok {
						start := t.Pos()
						if t.Doc != nil {
							start = t.Doc.Pos()
						}
						if ts.Doc != nil && ts.Doc.Pos() < start {
							start = ts.Doc.Pos()
						}
						idx["Controller:"+ts.Name.Name] = append(idx["Controller:"+ts.Name.Name], declSpan{p, fset.Position(start), fset.Position(t.End())})
					}
				}
			}
		}
		return nil
	})
	return idx
}

func pipeValidate1(args []string) error {
	fs := flag.NewFlagSet("pipe-validate1", flag.ExitOnError)
	dir := fs.String("dir", "", "")
	config := fs.String("config", "gleece.config.json", "")
	fs.Parse(args)
	res := vResult{Diags: []vDiag{}}
	out := func() error {
		fmt.Println("VRESULT " + mustJSON(res))
		return nil
	}
	abs, err := filepath.Abs(*dir)
	if err != nil {
		return err
	}
	if err := os.Chdir(abs); err != nil {
		return err
	}
	logger.SetLogLevel(logger.LogLevelNone)
	defer func() {
		if p := recover(); p != nil {
			res.Panic = fmt.Sprint(p)
			out()
		}
	}()
	cfg, err := cmd.LoadGleeceConfig(*config)
	if err != nil {
		res.Stage, res.Err = "config", err.Error()
		return out()
	}
	pipe, err := pipeline.NewGleecePipeline(cfg)
	if err != nil {
		res.Stage, res.Err = "pipeline", err.Error()
		return out()
	}
	if err := pipe.GenerateGraph(); err != nil {
		res.Stage, res.Err = "graph", err.Error()
		return out()
	}
	diags, err := pipe.Validate()
	if err != nil {
		res.Stage, res.Err = "validate", err.Error()
		return out()
	}
	res.Stage = "ok"
	res.Entities = len(diags)
	errEntities := diagnostics.GetDiagnosticsWithSeverity(diags, []diagnostics.DiagnosticSeverity{diagnostics.DiagnosticError})
	if len(errEntities) > 0 {
		res.ErrText = diagnostics.DiagnosticsToError(errEntities).Error()
	}
	idx := declIndex(abs)
	files := map[string][]string{}
	lines := func(p string) []string {
		if l, ok := files[p]; ok {
			return l
		}
		b, err := os.ReadFile(p)
		if err != nil {
			files[p] = nil
			return nil
		}
		files[p] = strings.Split(string(b), "\n")
		return files[p]
	}
	var walk func(path []string, e *diagnostics.EntityDiagnostic)
	walk = func(path []string, e *diagnostics.EntityDiagnostic) {
		here := append(append([]string{}, path...), e.EntityKind+":"+e.EntityName)
		for _, d := range e.Diagnostics {
			vd := vDiag{Entity: here, Code: d.Code, Severity: int(d.Severity), Message: d.Message,
				Range: [4]int{d.Range.StartLine, d.Range.StartCol, d.Range.EndLine, d.Range.EndCol}}
			rel, _ := filepath.Rel(abs, d.FilePath)
			vd.File = rel
			ls := lines(d.FilePath)
			vd.FileExists = ls != nil
			r := d.Range
			vd.Ordered = r.StartLine < r.EndLine || (r.StartLine == r.EndLine && r.StartCol <= r.EndCol)
			if ls != nil {
				inLine := func(line, col int) bool {
					return line >= 0 && line < len(ls) && col >= 0 && col <= len([]rune(ls[line]))+1
				}
				vd.InFile = inLine(r.StartLine, r.StartCol) && inLine(r.EndLine, r.EndCol)
				if vd.InFile && r.StartLine == r.EndLine && vd.Ordered {
					rs := []rune(ls[r.StartLine])
					if r.EndCol <= len(rs) {
						vd.Covered = string(rs[r.StartCol:r.EndCol])
						vd.MultiByteBefore = len(string(rs[:r.StartCol])) != r.StartCol
					}
				}
			}
			// the declaration the innermost controller/receiver entity names
			for i := len(here) - 1; i >= 0; i-- {
				spans, ok := idx[here[i]]
				if !ok {
					continue
				}
				for _, sp := range spans {
					if vd.DeclFile == "" {
						vd.DeclFile, _ = filepath.Rel(abs, sp.file)
					}
					if sp.file == d.FilePath {
						vd.DeclFile, _ = filepath.Rel(abs, sp.file)
						sl, el := sp.start.Line-1, sp.end.Line-1
						if r.StartLine >= sl && r.EndLine <= el {
							vd.InDecl = true
						}
					}
				}
				break
			}
			res.Diags = append(res.Diags, vd)
		}
		for _, c := range e.Children {
			walk(here, c)
		}
	}
	for i := range diags {
		walk(nil, &diags[i])
	}
	return out()
}

func parseVResult(out string) (*vResult, error) {
	for _, l := range strings.Split(out, "\n") {
		if strings.HasPrefix(l, "VRESULT ") {
			var r vResult
			if err := json.Unmarshal([]byte(l[8:]), &r); err != nil {
				return nil, err
			}
			return &r, nil
		}
	}
	return nil, fmt.Errorf("no VRESULT line in output: %.300s", out)
}
