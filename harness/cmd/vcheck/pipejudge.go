package main

// pipe-judge compares, per property ("aspect"), what the real CLI did on each case with what the specification printed for it
// (the `expect` record of the CASE line). It re-implements no oracle: every expected value is read from TLC's output; this
// file only projects the observation into the same shape and tests equality / the stated implication.

import (
	"strconv"
	"regexp"
	"encoding/json"
	"flag"
	"fmt"
	"sort"
	"strings"
)

func init() {
	commands["pipe-judge"] = pipeJudge
}

type jExpect struct {
	Ops []struct {
		Verb       string `json:"verb"`
		Path       string `json:"path"`
		OpID       string `json:"opId"`
		Tag        string `json:"tag"`
		Deprecated bool   `json:"deprecated"`
	} `json:"ops"`
	Security []struct {
		Verb     string  `json:"verb"`
		Path     string  `json:"path"`
		Security []oaSec `json:"security"`
	} `json:"security"`
	EnforceOk       bool              `json:"enforceOk"`
	SchemesDeclared bool              `json:"schemesDeclared"`
	Ambiguous       bool              `json:"ambiguous"`
	WellLinked      bool              `json:"wellLinked"`
	Operations      []json.RawMessage `json:"operations"`
	Accepted        *bool             `json:"accepted,omitempty"`
	ConfigValid     *bool             `json:"configValid,omitempty"`
	Components      json.RawMessage   `json:"components,omitempty"`
	Diags           json.RawMessage   `json:"diags,omitempty"`
	Conflicting []string `json:"conflicting"`
	PlainError bool `json:"plainError"`
	NameClash  bool `json:"nameClash"`
	Routes          []struct {
		Name              string `json:"name"`
		WellLinked        bool   `json:"wellLinked"`
		WellLinkedAsBuilt bool   `json:"wellLinkedAsBuilt"`
		Ptag              string `json:"ptag"`
	} `json:"routes"`
}

type jFinding struct {
	ID    string   `json:"id"`
	Prop  string   `json:"prop"`
	What  string   `json:"what"`
	Class string   `json:"class"` // violation | known:<signature>
	More  []string `json:"more,omitempty"`
}

type jSummary struct {
	Evaluated  map[string]int `json:"evaluated"`
	NonTrivial map[string]int `json:"nontrivial"`
	Skipped    map[string]int `json:"skipped"`
	Findings   []jFinding     `json:"findings"`
	Samples    map[string][]any `json:"samples"`
	Trouble    []string       `json:"trouble"`
	Cases      int            `json:"cases"`
	Accepted   int            `json:"accepted"`
}

var declaredEnumIssue = regexp.MustCompile(`^#/components/schemas/[^/]+: enum value `)

var propPointer = regexp.MustCompile(`^#/components/schemas/([^/]+)/properties/([^/:]+)[:/]`)
var paramPointer = regexp.MustCompile(`/parameters/(\d+)/schema[:/]`)

// goTypeAt resolves the JSON pointer an issue starts with to the Go type of the struct field or (in a one-method project) of the
// documented parameter it describes; "" when it cannot be resolved.
var declaredEnumTypesDiff = regexp.MustCompile(`^doc\.components\.\w+\.enumTypes`)
var ruleEnumTypesDiff = regexp.MustCompile(`doc\.components\.(\w+)\.properties\.(\w+)\.enumTypes`)

func goTypeAt(pc *pCase, issue string) string {
	if m := propPointer.FindStringSubmatch(issue); m != nil {
		for _, t := range pc.Types {
			if t.Name != m[1] {
				continue
			}
			for _, f := range t.Fields {
				jn := strings.Split(f.JSON, ",")[0]
				if jn == "" {
					jn = f.Name
				}
				if jn == m[2] {
					return f.Type
				}
			}
		}
		return ""
	}
	if m := paramPointer.FindStringSubmatch(issue); m != nil && len(pc.Methods) == 1 {
		idx, _ := strconv.Atoi(m[1])
		meth := pc.Methods[0]
		n := 0
		for _, sg := range meth.Sig {
			for _, a := range meth.Anns {
				if a.Value == sg.Name && (a.Kind == "Path" || a.Kind == "Query" || a.Kind == "Header") {
					if n == idx {
						return sg.Type
					}
					n++
				}
			}
		}
	}
	return ""
}

func accepted(r *runObs) bool { return r != nil && r.Exit == 0 && !r.Panicked && !r.TimedOut }

func sortedStrings(xs []string) []string {
	out := append([]string{}, xs...)
	sort.Strings(out)
	return out
}

func opKey(verb, path string) string { return verb + " " + path }

func secString(alts []oaSec) string {
	parts := []string{}
	for _, a := range alts {
		parts = append(parts, a.Scheme+"["+strings.Join(a.Scopes, ",")+"]")
	}
	return strings.Join(parts, " | ")
}

func judgeCase(rec *caseRecord, sum *jSummary) {
	// hostile inputs (C14's input language: raw annotation properties, arbitrary validator tags, unsupported type shapes) carry
	// expectations for termination and closure only
	scopedCase(rec.Case) // controllers in files no glob matches are not part of the project gleece is asked about
	hostile, illTyped := false, false
	for _, c := range rec.Case.Ctrls {
		for _, s := range c.Sec {
			hostile = hostile || s.RawProps != ""
		}
	}
	for _, m := range rec.Case.Methods {
		for _, s := range m.Sec {
			hostile = hostile || s.RawProps != ""
		}
		for _, a := range m.Anns {
			// (a perturbation of the C10/C18 space may carry an ill-TYPED property - "{name: 5}" - as written text)
			hostile = hostile || (a.RawProps != "" && m.Ptag == "")
			illTyped = illTyped || (a.RawProps != "" && m.Ptag != "")
		}
	}
	for _, t := range rec.Case.Types {
		hostile = hostile || t.Name == "Hostile"
	}
	// (an ill-typed property written by a perturbation: the diagnostics it draws are judged - C18 - while the verdict itself is not,
	//  the link validator looks at the properties of @Path only)
	relevant := func(prop string) bool {
		return (!hostile && !illTyped) || prop == "C14" || prop == "C08" || (illTyped && !hostile && prop == "C18")
	}
	startIdx := len(sum.Findings)
	defer func() {
		kept := sum.Findings[:startIdx]
		for _, f := range sum.Findings[startIdx:] {
			if relevant(f.Prop) {
				kept = append(kept, f)
			}
		}
		sum.Findings = kept
	}()
	add := func(prop, what string, more ...string) {
		if relevant(prop) {
			sum.Findings = append(sum.Findings, jFinding{ID: rec.ID, Prop: prop, What: what, Class: "violation", More: more})
		}
	}
	eval := func(prop string, nontrivial bool) {
		if !relevant(prop) {
			return
		}
		sum.Evaluated[prop]++
		if nontrivial {
			sum.NonTrivial[prop]++
			if len(sum.Samples[prop]) < 3 {
				sum.Samples[prop] = append(sum.Samples[prop], map[string]any{"id": rec.ID, "cfg": rec.Case.Cfg, "ctrls": rec.Case.Ctrls, "methods": rec.Case.Methods})
			}
		}
	}
	var exp jExpect
	if err := json.Unmarshal(rec.Case.Expect, &exp); err != nil {
		sum.Trouble = append(sum.Trouble, rec.ID+": bad expect: "+err.Error())
		return
	}
	for _, n := range rec.Notes {
		if strings.HasPrefix(n, "harness:") {
			sum.Trouble = append(sum.Trouble, rec.ID+": "+n)
			return
		}
	}
	if rec.Build != "" {
		// a verbatim (hostile) declaration may itself be ill-formed Go - e.g. a generic type used without instantiation: such a
		// project is part of C14's input language (the trace rules still demand a clean Exit), it carries no other expectation
		for _, t := range rec.Case.Types {
			if t.Kind == "raw" {
				return
			}
		}
		// the concretised project does not compile before gleece is involved: harness trouble, never a verdict
		sum.Trouble = append(sum.Trouble, rec.ID+": concretised project does not compile: "+rec.Build)
		return
	}
	main := rec.Runs["main"]
	if main == nil {
		if rec.Validate == nil {
			return
		}
		main = &runObs{Cmd: "none", Exit: 1, ErrLines: []string{"not run"}} // validate-only recording
	}
	sum.Cases++
	if accepted(main) {
		sum.Accepted++
	}
	pc := rec.Case
	multi := len(pc.Ctrls) >= 2
	hiddenAndVisible := false
	{
		h, v := false, false
		for _, m := range pc.Methods {
			if m.Hidden {
				h = true
			} else {
				v = true
			}
		}
		hiddenAndVisible = h && v
	}
	foreign := false
	for _, m := range pc.Methods {
		for _, c := range pc.Ctrls {
			if c.ID == m.Ctrl && c.File != m.File {
				foreign = true
			}
		}
	}

	// ---- C14: every run terminates with success or a reported error --------------------------------------------
	for name, r := range rec.Runs {
		eval("C14", len(r.Trace) >= 5)
		switch {
		case r.TimedOut:
			add("C14", fmt.Sprintf("run %s (%s) did not terminate within the watchdog", name, r.Cmd))
		case r.Panicked:
			add("C14", fmt.Sprintf("run %s (%s) crashed", name, r.Cmd), r.ErrLines...)
		case r.Exit != 0 && r.Exit != 1:
			add("C14", fmt.Sprintf("run %s (%s) exited with status %d", name, r.Cmd, r.Exit), r.OutTail)
		case r.Exit == 1 && len(r.ErrLines) == 0:
			add("C14", fmt.Sprintf("run %s (%s) failed without any error message", name, r.Cmd), r.OutTail)
		}
	}

	// ---- C01: operations are exactly the non-hidden annotated routes ---------------------------------------------
	checkOps := func(runName string, r *runObs) {
		if !accepted(r) || r.Spec == nil {
			return
		}
		if exp.Ambiguous {
			sum.Skipped["C01"]++
			return
		}
		eval("C01", hiddenAndVisible || multi || foreign)
		want := map[string]string{}
		for _, o := range exp.Ops {
			want[opKey(o.Verb, o.Path)] = fmt.Sprintf("opId=%s tag=%s deprecated=%v", o.OpID, o.Tag, o.Deprecated)
		}
		got := map[string]string{}
		for _, o := range r.Spec.Ops {
			tag := ""
			if len(o.Tags) > 0 {
				tag = o.Tags[0]
			}
			got[opKey(o.Verb, o.Path)] = fmt.Sprintf("opId=%s tag=%s deprecated=%v", o.OpID, tag, o.Deprecated)
			if len(o.Tags) != 1 {
				add("C01", fmt.Sprintf("%s: operation %s %s carries %d tags", runName, o.Verb, o.Path, len(o.Tags)))
			}
		}
		for k, w := range want {
			g, ok := got[k]
			if !ok {
				add("C01", fmt.Sprintf("%s (%s): annotated, non-hidden route %q is missing from the document", runName, r.Spec.Version, k))
			} else if g != w {
				add("C01", fmt.Sprintf("%s (%s): operation %q documented as {%s}, declared {%s}", runName, r.Spec.Version, k, g, w))
			}
		}
		for k := range got {
			if _, ok := want[k]; !ok {
				add("C01", fmt.Sprintf("%s (%s): document contains operation %q that no visible annotated method declares", runName, r.Spec.Version, k))
			}
		}
	}
	checkOps("main", main)
	checkOps("alt", rec.Runs["alt"])

	// ---- C04: documented security = effective security; undeclared scheme => no spec; enforce leaves no open route ----
	checkSec := func(runName string, r *runObs) {
		if r == nil {
			return
		}
		levels := 0
		if pc.Cfg.Default != nil && pc.Cfg.Default.Scheme != "" {
			levels++
		}
		for _, c := range pc.Ctrls {
			if len(c.Sec) > 0 {
				levels++
				break
			}
		}
		for _, m := range pc.Methods {
			if len(m.Sec) > 0 {
				levels++
				break
			}
		}
		eval("C04", levels >= 2)
		if !exp.SchemesDeclared && r.Spec != nil {
			add("C04", fmt.Sprintf("%s: a route names an undeclared security scheme yet a spec was written", runName))
		}
		if pc.Cfg.Enforce && !exp.EnforceOk && accepted(r) {
			add("C04", fmt.Sprintf("%s: enforceSecurityOnAllRoutes is set, a route has no effective security, yet the project was accepted", runName))
		}
		if !accepted(r) || r.Spec == nil || exp.Ambiguous {
			return
		}
		want := map[string]string{}
		for _, o := range exp.Security {
			want[opKey(o.Verb, o.Path)] = secString(o.Security)
		}
		for _, o := range r.Spec.Ops {
			alts := []oaSec{}
			for _, alt := range o.Security {
				if len(alt) != 1 {
					add("C04", fmt.Sprintf("%s: %s %s has a security alternative with %d schemes", runName, o.Verb, o.Path, len(alt)))
					continue
				}
				alts = append(alts, alt[0])
			}
			w, ok := want[opKey(o.Verb, o.Path)]
			if ok && secString(alts) != w {
				add("C04", fmt.Sprintf("%s (%s): %s %s documents security {%s}, effective security is {%s}", runName, r.Spec.Version, o.Verb, o.Path, secString(alts), w))
			}
			for _, a := range alts {
				if _, ok := r.Spec.Schemes[a.Scheme]; !ok {
					add("C04", fmt.Sprintf("%s: %s %s names scheme %q which components.securitySchemes does not declare", runName, o.Verb, o.Path, a.Scheme))
				}
			}
		}
		gotSchemes := []string{}
		for k := range r.Spec.Schemes {
			gotSchemes = append(gotSchemes, k)
		}
		if strings.Join(sortedStrings(gotSchemes), ",") != strings.Join(sortedStrings(pc.Cfg.Schemes), ",") {
			add("C04", fmt.Sprintf("%s: components.securitySchemes = %v, configured %v", runName, sortedStrings(gotSchemes), sortedStrings(pc.Cfg.Schemes)))
		}
	}
	checkSec("main", main)
	checkSec("alt", rec.Runs["alt"])

	// ---- C06: documented parameters, bodies and responses equal the declared signature -------------------------------------
	checkC06 := func(runName string, r *runObs) {
		if !accepted(r) || r.Spec == nil || exp.Ambiguous {
			return
		}
		obsOps := map[string]oaOp{}
		for _, o := range r.Spec.Ops {
			obsOps[opKey(o.Verb, o.Path)] = o
		}
		for _, raw := range exp.Operations {
			var e struct {
				Verb   string `json:"verb"`
				Path   string `json:"path"`
				Params []struct {
					Name     string `json:"name"`
					In       string `json:"in"`
					Required bool   `json:"required"`
					Schema   any    `json:"schema"`
				} `json:"params"`
				Body struct {
					Kind     string `json:"kind"`
					Required bool   `json:"required"`
					Schema   any    `json:"schema"`
					Fields   []struct {
						Name     string `json:"name"`
						Required bool   `json:"required"`
						Schema   any    `json:"schema"`
					} `json:"fields"`
				} `json:"body"`
				Success struct {
					Code   int `json:"code"`
					Schema any `json:"schema"`
				} `json:"success"`
				Errors []struct {
					Code   int `json:"code"`
					Schema any `json:"schema"`
				} `json:"errors"`
			}
			if err := json.Unmarshal(raw, &e); err != nil {
				sum.Trouble = append(sum.Trouble, rec.ID+": bad expected operation: "+err.Error())
				return
			}
			o, ok := obsOps[opKey(e.Verb, e.Path)]
			if !ok {
				continue // C01's business
			}
			nontrivial := len(e.Errors) > 0 || e.Body.Kind != "none"
			for _, p := range e.Params {
				if !p.Required {
					nontrivial = true
				}
			}
			eval("C06", nontrivial)
			where := fmt.Sprintf("%s (%s) %s %s", runName, r.Spec.Version, e.Verb, e.Path)
			// parameters, in signature order
			got := []string{}
			for _, p := range o.Params {
				got = append(got, fmt.Sprintf("%s in %s required=%v schema=%s", p.Name, p.In, p.Required, mustJSON(absSchema(p.Schema))))
			}
			want := []string{}
			for _, p := range e.Params {
				want = append(want, fmt.Sprintf("%s in %s required=%v schema=%s", p.Name, p.In, p.Required, mustJSON(canon(p.Schema))))
			}
			if strings.Join(got, "; ") != strings.Join(want, "; ") {
				add("C06", fmt.Sprintf("%s: parameters documented as [%s], signature declares [%s]", where, strings.Join(got, "; "), strings.Join(want, "; ")))
			}
			// request body
			switch e.Body.Kind {
			case "none":
				if o.Body != nil {
					add("C06", fmt.Sprintf("%s: a requestBody is documented but the method has neither @Body nor @FormField", where))
				}
			case "json":
				if o.Body == nil {
					add("C06", fmt.Sprintf("%s: the @Body parameter is not documented as requestBody", where))
				} else {
					sc, ok := o.Body.Content["application/json"]
					if !ok || len(o.Body.Content) != 1 {
						add("C06", fmt.Sprintf("%s: requestBody content types %v, expected exactly application/json", where, keysOf(o.Body.Content)))
					} else if mustJSON(absSchema(sc)) != mustJSON(canon(e.Body.Schema)) {
						add("C06", fmt.Sprintf("%s: requestBody schema %s, declared type maps to %s", where, mustJSON(absSchema(sc)), mustJSON(canon(e.Body.Schema))))
					}
					if o.Body.Required != e.Body.Required {
						add("C06", fmt.Sprintf("%s: requestBody required=%v, rule says %v", where, o.Body.Required, e.Body.Required))
					}
				}
			case "form":
				if o.Body == nil {
					add("C06", fmt.Sprintf("%s: @FormField parameters are not documented as a requestBody", where))
				} else {
					sc, ok := o.Body.Content["application/x-www-form-urlencoded"]
					if !ok || len(o.Body.Content) != 1 {
						add("C06", fmt.Sprintf("%s: form body content types %v, expected exactly application/x-www-form-urlencoded", where, keysOf(o.Body.Content)))
					} else {
						m := asMap(sc)
						props := asMap(m["properties"])
						req := map[string]bool{}
						for _, x := range asSlice(m["required"]) {
							req[asString(x)] = true
						}
						gotF, wantF := []string{}, []string{}
						for name, ps := range props {
							gotF = append(gotF, fmt.Sprintf("%s required=%v schema=%s", name, req[name], mustJSON(absSchema(ps))))
						}
						for _, f := range e.Body.Fields {
							wantF = append(wantF, fmt.Sprintf("%s required=%v schema=%s", f.Name, f.Required, mustJSON(canon(f.Schema))))
						}
						sort.Strings(gotF)
						sort.Strings(wantF)
						if strings.Join(gotF, "; ") != strings.Join(wantF, "; ") {
							add("C06", fmt.Sprintf("%s: form body properties [%s], declared [%s]", where, strings.Join(gotF, "; "), strings.Join(wantF, "; ")))
						}
					}
				}
			}
			// responses: what must be present
			wantResp := map[string]string{fmt.Sprint(e.Success.Code): mustJSON(canon(e.Success.Schema))}
			for _, er := range e.Errors {
				wantResp[fmt.Sprint(er.Code)] = mustJSON(canon(er.Schema))
			}
			for code, ws := range wantResp {
				gr, ok := o.Responses[code]
				if !ok {
					add("C06", fmt.Sprintf("%s: response %s is not documented", where, code))
					continue
				}
				gs := `{"k":"none"}`
				if len(gr.Content) > 0 {
					sc, ok := gr.Content["application/json"]
					if !ok {
						add("C06", fmt.Sprintf("%s: response %s has content types %v", where, code, keysOf(gr.Content)))
						continue
					}
					gs = mustJSON(absSchema(sc))
				}
				if gs != ws {
					add("C06", fmt.Sprintf("%s: response %s documents %s, the signature gives %s", where, code, gs, ws))
				}
			}
			for code := range o.Responses {
				if _, ok := wantResp[code]; !ok && code != "default" {
					add("C06", fmt.Sprintf("%s: response %s is documented but not declared", where, code))
				}
			}
		}
	}
	checkC06("main", main)
	checkC06("alt", rec.Runs["alt"])

	// ---- C07: component schemas mirror the Go declarations --------------------------------------------------------------------
	checkC07 := func(runName string, r *runObs) {
		if !accepted(r) || r.Spec == nil || exp.Components == nil || len(pc.Types) == 0 {
			return
		}
		for _, t := range pc.Types {
			if t.Kind == "raw" || t.Name == "Hostile" {
				return // hostile inputs (C14) carry no schema expectation
			}
		}
		var comps []struct {
			Name   string `json:"name"`
			Schema any    `json:"schema"`
		}
		if err := json.Unmarshal(exp.Components, &comps); err != nil {
			sum.Trouble = append(sum.Trouble, rec.ID+": bad expected components: "+err.Error())
			return
		}
		rich := false
		for _, t := range pc.Types {
			for _, f := range t.Fields {
				if f.Embed || strings.Contains(f.Type, "*"+t.Pkg+"."+t.Name) || (strings.Contains(f.Type, ".") && !strings.HasPrefix(strings.TrimLeft(f.Type, "*[]"), t.Pkg+".") && !strings.HasPrefix(f.Type, "time.")) {
					rich = true
				}
			}
		}
		eval("C07", rich)
		if exp.NameClash {
			sum.Findings = append(sum.Findings, jFinding{ID: rec.ID, Prop: "C07", Class: "known:component-name-clash", What: runName + ": two reachable declarations share a bare type name and collapse into one component"})
			return
		}
		want := map[string]string{}
		for _, c := range comps {
			// enum constants are carried as Go literals ("\"red\"", "1"): compare by value text
			if m := asMap(c.Schema); m != nil && m["k"] == "enum" {
				vals := []any{}
				for _, v := range asSlice(m["values"]) {
					vals = append(vals, strings.Trim(asString(v), "\""))
				}
				m["values"] = vals
			}
			want[c.Name] = mustJSON(canon(c.Schema))
		}
		if exp.PlainError {
			want["Rfc7807Error"] = "*"
		}
		for name, raw := range r.Spec.Components {
			w, ok := want[name]
			if !ok {
				if name == "Rfc7807Error" {
					sum.Findings = append(sum.Findings, jFinding{ID: rec.ID, Prop: "C07", Class: "known:rfc7807-without-plain-error",
						What: runName + ": the RFC-7807 error model is emitted although no route returns a plain error"})
					continue
				}
				add("C07", fmt.Sprintf("%s (%s): component %q is not reachable from any route's parameters or results", runName, r.Spec.Version, name))
				continue
			}
			if w == "*" {
				continue
			}
			got := mustJSON(canon(absComponent(raw)))
			if got != w {
				add("C07", fmt.Sprintf("%s (%s): component %q is %s, its Go declaration gives %s", runName, r.Spec.Version, name, got, w))
			}
		}
		for name := range want {
			if _, ok := r.Spec.Components[name]; !ok {
				add("C07", fmt.Sprintf("%s (%s): reachable type %q has no component schema", runName, r.Spec.Version, name))
			}
		}
	}
	checkC07("main", main)
	checkC07("alt", rec.Runs["alt"])

	// ---- C11: the 3.0 and 3.1 documents describe the same API ----------------------------------------------------------------
	if alt := rec.Runs["alt"]; accepted(main) && accepted(alt) && main.Spec != nil && alt.Spec != nil {
		hasRules := false
		for _, t := range pc.Types {
			for _, f := range t.Fields {
				if f.Valid != "" && f.Valid != "required" {
					hasRules = true
				}
			}
			if t.Kind == "enum" {
				hasRules = true
			}
		}
		eval("C11", hasRules)
		a, b := normDoc(main.Spec), normDoc(alt.Spec)
		var diffs []string
		diffJSON("doc", a, b, &diffs, 8)
		for _, dline := range diffs {
			class := "violation"
			switch {
			case strings.Contains(dline, ".responses.default"):
				class = "known:default-response-3.0-only"
			case strings.Contains(dline, ".maxItems: 0 vs null"):
				// 'maxItems=0': the 3.0 document says maxItems: 0, the 3.1 document has no maxItems at all (the zero is dropped on rendering)
				class = "known:maxitems-zero-omitted-3.1"
			case declaredEnumTypesDiff.MatchString(dline):
				// a DECLARED non-string enum (component of kind enum): values are strings in 3.0, numbers in 3.1
				class = "known:enum-values-as-strings-3.0"
			case strings.Contains(dline, ".enumTypes"):
				// an 'enum=' / 'oneof=' RULE: both emitters type the values by the schema's type, except that the 3.1 emitter leaves them
				// untagged (so numeric text becomes a number) on a string schema that carries a format (time.Time, []byte)
				if m := ruleEnumTypesDiff.FindStringSubmatch(dline); m != nil {
					if gt := goTypeAt(pc, "#/components/schemas/"+m[1]+"/properties/"+m[2]+":"); gt == "time.Time" || gt == "[]byte" {
						class = "known:enum-rule-untyped-3.1-on-formatted-string"
					}
				}
			}
			sum.Findings = append(sum.Findings, jFinding{ID: rec.ID, Prop: "C11", Class: class, What: fmt.Sprintf("the %s and %s documents differ at %s", main.Spec.Version, alt.Spec.Version, dline)})
		}
	}

	// ---- C08: whatever spec file appears is closed -------------------------------------------------------------------
	for name, r := range rec.Runs {
		if r.Spec == nil || r.Closure == nil {
			continue
		}
		eval("C08", r.Closure.Refs > 0 && r.Closure.PathParams > 0)
		c := r.Closure
		for _, x := range c.DanglingRefs {
			add("C08", fmt.Sprintf("%s (%s): dangling reference %s", name, r.Spec.Version, x))
		}
		for _, x := range c.PlaceholderIssues {
			add("C08", fmt.Sprintf("%s (%s): %s", name, r.Spec.Version, x))
		}
		for _, x := range c.DuplicateParams {
			add("C08", fmt.Sprintf("%s (%s): duplicate parameter %s", name, r.Spec.Version, x))
		}
		for _, x := range c.MissingRespDesc {
			add("C08", fmt.Sprintf("%s (%s): response without description: %s", name, r.Spec.Version, x))
		}
		for _, x := range c.EnumTypeIssues {
			// the recorded finding is specific: the 3.0 emitter writes the constants of a DECLARED non-string enum type (a component)
			// as strings; an ill-typed enum value anywhere else, or in the 3.1 document, is a violation of its own
			class := "violation"
			if strings.HasPrefix(r.Spec.Version, "3.0") && declaredEnumIssue.MatchString(x) {
				class = "known:enum-type"
			}
			if gt := goTypeAt(pc, x); gt != "" {
				x += " [go type " + gt + "]"
			}
			sum.Findings = append(sum.Findings, jFinding{ID: rec.ID, Prop: "C08", Class: class, What: fmt.Sprintf("%s (%s): %s", name, r.Spec.Version, x)})
		}
		if r.Spec.Version != "" {
			wantV := pc.Cfg.Version
			if name == "alt" {
				wantV = otherVersion(pc.Cfg.Version)
			}
			if r.Spec.Version != wantV {
				add("C08", fmt.Sprintf("%s: document declares openapi %q, configured %q", name, r.Spec.Version, wantV))
			}
		}
		// the securitySchemes section is the configuration's, scheme by scheme (oauth2: flow by flow, each with its own scopes)
		for _, sn := range pc.Cfg.Schemes {
			got, ok := r.Spec.Schemes[sn]
			if !ok {
				continue // (a missing scheme is C04's business)
			}
			var diffs []string
			diffJSON("securitySchemes."+sn, canon(anyJSON(schemeDocument(sn))), canon(anyJSON(got)), &diffs, 3)
			for _, dl := range diffs {
				add("C08", fmt.Sprintf("%s (%s): the document's security scheme differs from the configuration at %s", name, r.Spec.Version, dl))
			}
		}
		if len(r.Spec.Servers) != 1 || r.Spec.Servers[0] != "https://api.example.com/v1" {
			add("C08", fmt.Sprintf("%s: servers = %v, configured baseUrl https://api.example.com/v1", name, r.Spec.Servers))
		}
		if asString(r.Spec.Info["title"]) != "Case API" || asString(r.Spec.Info["version"]) != "1.2.3" {
			add("C08", fmt.Sprintf("%s: info = %v does not carry the configured title/version", name, r.Spec.Info))
		}
	}

	// ---- C10 (file-system half): a rejected run writes nothing ----------------------------------------------------------
	// (the routes file written before a later spec failure is covered by the property's wording "error-severity diagnostic":
	//  only runs that failed on diagnostics / configuration must leave both outputs untouched)
	for name, r := range rec.Runs {
		failedOnDiags := false
		for _, ev := range r.Trace {
			if ev["event"] == "RunFailedOnDiagnostics" {
				failedOnDiags = true
			}
		}
		if failedOnDiags {
			eval("C10", true)
			if len(r.Fs.Created)+len(r.Fs.Modified)+len(r.Fs.Deleted)+len(r.Fs.Touched) > 0 {
				add("C10", fmt.Sprintf("%s: the run failed on error diagnostics yet the file system changed: %+v", name, r.Fs))
			}
			if r.Exit == 0 {
				add("C10", fmt.Sprintf("%s: error diagnostics exist yet the command exited 0", name))
			}
		}
	}
	// ---- C10 (validation half) and C18, on the diagnostics of the in-process GenerateGraph + Validate ----------------------------
	if v := rec.Validate; v != nil {
		switch {
		case v.Panic != "":
			add("C14", "GenerateGraph/Validate crashed in-process", v.Panic)
		case v.Stage == "ok":
			errsOf := map[string][]vDiag{}
			anyErr := false
			for _, d := range v.Diags {
				if d.Severity == 1 {
					anyErr = true
					for _, e := range d.Entity {
						if strings.HasPrefix(e, "Receiver:") {
							errsOf[strings.TrimPrefix(e, "Receiver:")] = append(errsOf[strings.TrimPrefix(e, "Receiver:")], d)
						}
					}
				}
			}
			for _, rt := range exp.Routes {
				eval("C10", rt.Ptag != "")
				rejected := len(errsOf[rt.Name]) > 0
				if pc.Cfg.Enforce {
					continue // receiver-missing-security is an error of its own; covered by C04
				}
				if rejected == !rt.WellLinked {
					continue
				}
				class := "violation"
				if rejected == !rt.WellLinkedAsBuilt {
					class = "known:linker-gaps"
				}
				what := fmt.Sprintf("route %s (%s) is not well-linked, yet validation reports no error for it", rt.Name, rt.Ptag)
				if rejected {
					what = fmt.Sprintf("route %s (%s) is well-linked, yet validation rejects it: %s %s", rt.Name, rt.Ptag, errsOf[rt.Name][0].Code, errsOf[rt.Name][0].Message)
				}
				sum.Findings = append(sum.Findings, jFinding{ID: rec.ID, Prop: "C10", Class: class, What: what})
			}
			if anyErr && main != nil {
				eval("C10", true)
				if accepted(main) {
					add("C10", "error-severity diagnostics exist, yet the command exited 0")
				}
				if len(main.Fs.Created)+len(main.Fs.Modified)+len(main.Fs.Deleted)+len(main.Fs.Touched) > 0 {
					add("C10", fmt.Sprintf("error-severity diagnostics exist, yet the command changed the file system: %+v", main.Fs))
				}
			}
			// C15 at the project level: exactly the methods with an overlapping same-verb route carry a route-conflict warning
			if exp.Conflicting != nil {
				got := map[string]bool{}
				for _, d := range v.Diags {
					if d.Code == "route-conflict" {
						for _, e := range d.Entity {
							if strings.HasPrefix(e, "Receiver:") {
								got[strings.TrimPrefix(e, "Receiver:")] = true
							}
						}
					}
				}
				eval("C15", len(exp.Conflicting) > 0)
				want := map[string]bool{}
				for _, n := range exp.Conflicting {
					want[n] = true
					if !got[n] {
						add("C15", fmt.Sprintf("method %s overlaps another same-verb route (full path) but carries no route-conflict warning", n))
					}
				}
				for n := range got {
					if !want[n] {
						add("C15", fmt.Sprintf("method %s carries a route-conflict warning although no other same-verb route can match a common path", n))
					}
				}
			}
			// C18
			seen := map[string]bool{}
			for _, d := range v.Diags {
				eval("C18", d.MultiByteBefore || d.DeclFile != pc.Ctrls[0].File+".go")
				where := fmt.Sprintf("%s %q at %s:%v", d.Code, d.Message, d.File, d.Range)
				if !d.FileExists {
					add("C18", "diagnostic names a file that does not exist: "+where)
					continue
				}
				if d.DeclFile != "" && d.File != d.DeclFile {
					add("C18", fmt.Sprintf("diagnostic names file %s but the construct is declared in %s: %s", d.File, d.DeclFile, where))
				}
				if !d.Ordered {
					add("C18", "diagnostic range starts after it ends: "+where)
				}
				if !d.InFile {
					add("C18", "diagnostic range lies outside its file: "+where)
				}
				if d.DeclFile != "" && d.File == d.DeclFile && !d.InDecl {
					add("C18", "diagnostic range lies outside the comment/declaration it concerns: "+where)
				}
				if q := firstQuoted(d.Message); q != "" && isValueDiag(d.Code, d.Message) && d.Covered != q {
					add("C18", fmt.Sprintf("diagnostic about the value %q covers the text %q: %s", q, d.Covered, where))
				}
				k := strings.Join(d.Entity, "/") + "|" + d.File + "|" + d.Code + "|" + d.Message + "|" + fmt.Sprint(d.Range) // (same-named controllers of two packages are two entities)
				if seen[k] {
					add("C18", "diagnostic reported twice: "+where)
				}
				seen[k] = true
			}
			if v.ErrText != "" {
				eval("C18", true)
				lines := map[string]int{}
				for _, l := range strings.Split(v.ErrText, "\n") {
					t := strings.TrimSpace(l)
					if strings.Contains(t, ".go:") || strings.Contains(t, "Error") {
						lines[t]++
					}
				}
				for l, n := range lines {
					if n > 1 && len(l) > 12 {
						sum.Findings = append(sum.Findings, jFinding{ID: rec.ID, Prop: "C18", Class: "known:error-text-repeats-entity",
							What: fmt.Sprintf("the command's error text repeats a diagnostic %d times: %.160s", n, l)})
						break
					}
				}
			}
		}
	}

	// ---- C13: repeated / re-scheduled runs give byte-identical artifacts ---------------------------------------------------
	if accepted(main) {
		others := 0
		for name, r := range rec.Runs {
			if !(strings.HasPrefix(name, "repeat") || strings.HasPrefix(name, "order")) {
				continue
			}
			others++
			if !accepted(r) {
				add("C13", fmt.Sprintf("run %s of the same project and configuration was rejected while the first was accepted", name), r.ErrLines...)
				continue
			}
			if r.RoutesSha != main.RoutesSha {
				add("C13", fmt.Sprintf("routes file of run %s (schedule %q) differs from the first run's", name, r.Order))
			}
			if r.SpecFile != nil && main.SpecFile != nil && r.SpecFile.Sha != main.SpecFile.Sha {
				add("C13", fmt.Sprintf("spec file of run %s (schedule %q) differs from the first run's", name, r.Order))
			}
		}
		// the OpenAPI document does not depend on the routing engine
		if e := rec.Runs["engine"]; e != nil {
			if !accepted(e) {
				add("C13", "generate spec was rejected under another routing engine while the first run was accepted", e.ErrLines...)
			} else if e.SpecFile != nil && main.SpecFile != nil && e.SpecFile.Sha != main.SpecFile.Sha {
				add("C13", "the spec file generated under another routing engine differs from the first run's")
			}
		}
		if others > 0 {
			eval("C13", multi)
		}
	}
}

func pipeJudge(args []string) error {
	fs := flag.NewFlagSet("pipe-judge", flag.ExitOnError)
	recs := fs.String("records", "", "")
	outp := fs.String("out", "", "")
	fs.Parse(args)
	sum := &jSummary{Evaluated: map[string]int{}, NonTrivial: map[string]int{}, Skipped: map[string]int{}, Findings: []jFinding{}, Samples: map[string][]any{}, Trouble: []string{}}
	err := readLines(*recs, func(line []byte) error {
		var rec caseRecord
		if err := json.Unmarshal(line, &rec); err != nil {
			return fmt.Errorf("bad record: %v", err)
		}
		judgeCase(&rec, sum)
		return nil
	})
	if err != nil {
		return err
	}
	return writeJSONFile(*outp, sum)
}

func keysOf(m map[string]any) []string {
	out := []string{}
	for k := range m {
		out = append(out, k)
	}
	sort.Strings(out)
	return out
}

// absSchema projects an observed JSON schema into the specification's TypeSchema vocabulary (validator keywords aside).
func absSchema(v any) any {
	m := asMap(v)
	if m == nil {
		return map[string]any{"k": "none"}
	}
	if ref, ok := m["$ref"].(string); ok {
		return map[string]any{"k": "ref", "name": strings.TrimPrefix(ref, "#/components/schemas/")}
	}
	t := ""
	switch tv := m["type"].(type) {
	case string:
		t = tv
	case []any:
		for _, x := range tv {
			if s := asString(x); s != "null" {
				t = s
			}
		}
	}
	switch {
	case t == "array":
		return map[string]any{"k": "array", "items": absSchema(m["items"])}
	case t == "object" && m["additionalProperties"] != nil && m["properties"] == nil:
		return map[string]any{"k": "map", "value": absSchema(m["additionalProperties"])}
	default:
		// a string schema's format: from the Go type (time.Time, []byte) or from a validator rule (email, uuid, ... - the
		// specification holds the table); formats of other primitives are outside the specification's vocabulary
		f := asString(m["format"])
		if t != "string" {
			f = ""
		}
		return map[string]any{"k": "prim", "t": t, "f": f}
	}
}

func firstQuoted(msg string) string {
	i := strings.Index(msg, "'")
	if i < 0 {
		return ""
	}
	j := strings.Index(msg[i+1:], "'")
	if j < 0 {
		return ""
	}
	return msg[i+1 : i+1+j]
}

// isValueDiag: the diagnostics the code documents as being "about an annotation's value" (created through
// getDiagnosticForAttributeValue / an attribute's value range).
func isValueDiag(code, msg string) bool {
	switch code {
	case "annotation-value-invalid", "unsupported-feature":
		return true
	case "linker-path-annotation-invalid-reference":
		return strings.HasPrefix(msg, "@")
	case "linker-multiple-parameter-refs":
		return true
	}
	return false
}

// absComponent projects an observed component schema into the specification's SchemaOf vocabulary.
func absComponent(v any) any {
	m := asMap(v)
	obj := m
	allOf := []any{}
	if parts, ok := m["allOf"].([]any); ok {
		obj = map[string]any{}
		for _, p := range parts {
			pm := asMap(p)
			if ref, ok := pm["$ref"].(string); ok {
				allOf = append(allOf, strings.TrimPrefix(ref, "#/components/schemas/"))
			} else {
				obj = pm
			}
		}
	}
	if en, ok := obj["enum"].([]any); ok {
		vals := []any{}
		for _, e := range en {
			if s, isStr := e.(string); isStr {
				vals = append(vals, s) // compared by text: value types are C08/C11's business
			} else {
				vals = append(vals, mustJSON(e))
			}
		}
		return map[string]any{"k": "enum", "deprecated": asBool(obj["deprecated"]) || asBool(m["deprecated"]), "t": typeOf(obj), "values": vals}
	}
	if typeOf(obj) == "object" || obj["properties"] != nil || len(allOf) > 0 {
		props := []any{}
		for name, ps := range asMap(obj["properties"]) {
			// a property that is a bare reference can carry no deprecation of its own ("any"); an inline one says yes or no
			dep := "no"
			if pm := asMap(ps); pm != nil {
				if _, isRef := pm["$ref"]; isRef {
					dep = "any"
				} else if asBool(pm["deprecated"]) {
					dep = "yes"
				}
			}
			props = append(props, map[string]any{"name": name, "schema": absSchema(ps), "dep": dep})
		}
		req := []any{}
		for _, x := range asSlice(obj["required"]) {
			req = append(req, x)
		}
		return map[string]any{"k": "object", "deprecated": asBool(obj["deprecated"]) || asBool(m["deprecated"]), "props": props, "required": req, "allOf": allOf}
	}
	return map[string]any{"k": "alias", "deprecated": asBool(obj["deprecated"]), "t": typeOf(obj)}
}

func typeOf(m map[string]any) string {
	switch tv := m["type"].(type) {
	case string:
		return tv
	case []any:
		for _, x := range tv {
			if s := asString(x); s != "null" {
				return s
			}
		}
	}
	return ""
}

// normSchema translates a 3.0 or 3.1 schema into one dialect-free form (the dialect map of C11).
func normSchema(v any) any {
	m := asMap(v)
	if m == nil {
		return v
	}
	out := map[string]any{}
	for k, x := range m {
		switch k {
		case "description":
			if s := strings.TrimSpace(asString(x)); s != "" {
				out[k] = s
			}
		case "title":
			out[k] = x
		case "deprecated", "nullable", "uniqueItems":
			if asBool(x) {
				out[k] = true
			}
		case "type":
			out[k] = typeOf(m)
			if arr, ok := x.([]any); ok {
				for _, t := range arr {
					if asString(t) == "null" {
						out["nullable"] = true
					}
				}
			}
		case "exclusiveMinimum", "exclusiveMaximum":
			base := "minimum"
			if k == "exclusiveMaximum" {
				base = "maximum"
			}
			if b, isBool := x.(bool); isBool {
				if b {
					out[k] = m[base]
					delete(out, base)
				}
			} else {
				out[k] = x
			}
		case "minimum", "maximum":
			ek := "exclusiveMinimum"
			if k == "maximum" {
				ek = "exclusiveMaximum"
			}
			if b, isBool := m[ek].(bool); isBool && b {
				continue
			}
			out[k] = x
		case "properties":
			ps := map[string]any{}
			for n, p := range asMap(x) {
				ps[n] = normSchema(p)
			}
			out[k] = ps
		case "items", "additionalProperties":
			out[k] = normSchema(x)
		case "allOf", "oneOf", "anyOf":
			l := []any{}
			for _, p := range asSlice(x) {
				l = append(l, mustJSON(normSchema(p)))
			}
			out[k] = canon(l)
		case "required":
			l := []any{}
			for _, p := range asSlice(x) {
				l = append(l, p)
			}
			if len(l) > 0 {
				out[k] = canon(l)
			}
		case "enum":
			if t := typeOf(m); t == "array" || t == "boolean" || t == "object" {
				// an enum/oneof rule on a non-scalar schema is meaningless in both dialects (reported under C08 for each document)
				out["enumOnNonScalar"] = len(asSlice(x)) > 0
				continue
			}
			l, ts := []any{}, []any{}
			for _, e := range asSlice(x) {
				l = append(l, fmt.Sprint(e))
				ts = append(ts, jsonTypeOf(e))
			}
			out[k] = canon(l)
			out["enumTypes"] = canon(ts)
		case "minLength", "minItems":
			if f, ok := x.(float64); ok && f == 0 {
				continue
			}
			out[k] = x
		default:
			out[k] = x
		}
	}
	return out
}

func normDoc(d *oaDoc) any {
	ops := map[string]any{}
	for _, o := range d.Ops {
		params := []any{}
		for _, p := range o.Params {
			params = append(params, map[string]any{"name": p.Name, "in": p.In, "required": p.Required, "deprecated": p.Deprecated, "schema": normSchema(p.Schema), "desc": strings.TrimSpace(p.Desc)})
		}
		var body any
		if o.Body != nil {
			cs := map[string]any{}
			for mime, sc := range o.Body.Content {
				cs[mime] = normSchema(sc)
			}
			body = map[string]any{"required": o.Body.Required, "content": cs}
		}
		resps := map[string]any{}
		for code, r := range o.Responses {
			cs := map[string]any{}
			for mime, sc := range r.Content {
				cs[mime] = normSchema(sc)
			}
			desc := ""
			if r.Desc != nil {
				desc = strings.TrimSpace(*r.Desc)
			}
			resps[code] = map[string]any{"content": cs, "desc": desc}
		}
		sec := []any{}
		for _, alt := range o.Security {
			sec = append(sec, mustJSON(alt))
		}
		tags := []any{}
		for _, t := range o.Tags {
			tags = append(tags, t)
		}
		ops[o.Verb+" "+o.Path] = map[string]any{"opId": o.OpID, "tags": tags, "deprecated": o.Deprecated, "security": sec,
			"params": params, "body": body, "responses": resps, "desc": strings.TrimSpace(o.Desc)}
	}
	comps := map[string]any{}
	for n, sc := range d.Components {
		comps[n] = normSchema(sc)
	}
	schemes := map[string]any{}
	for n, sc := range d.Schemes {
		schemes[n] = sc
	}
	return map[string]any{"ops": ops, "components": comps, "schemes": schemes}
}
