package main

// pipe-judge compares, per property ("aspect"), what the real CLI did on each case with what the specification printed for it
// (the `expect` record of the CASE line). It re-implements no oracle: every expected value is read from TLC's output; this
// file only projects the observation into the same shape and tests equality / the stated implication.

import (
	"encoding/json"
	"flag"
	"fmt"
	"sort"
	"strings"
)

func init() {
	commands["pipe-judge"] = pipeJudge
}

type jExpect struct {
	Ops []struct {
		Verb       string `json:"verb"`
		Path       string `json:"path"`
		OpID       string `json:"opId"`
		Tag        string `json:"tag"`
		Deprecated bool   `json:"deprecated"`
	} `json:"ops"`
	Security []struct {
		Verb     string  `json:"verb"`
		Path     string  `json:"path"`
		Security []oaSec `json:"security"`
	} `json:"security"`
	EnforceOk       bool              `json:"enforceOk"`
	SchemesDeclared bool              `json:"schemesDeclared"`
	Ambiguous       bool              `json:"ambiguous"`
	WellLinked      bool              `json:"wellLinked"`
	Operations      []json.RawMessage `json:"operations"`
	Accepted        *bool             `json:"accepted,omitempty"`
	ConfigValid     *bool             `json:"configValid,omitempty"`
	Components      json.RawMessage   `json:"components,omitempty"`
	Diags           json.RawMessage   `json:"diags,omitempty"`
}

type jFinding struct {
	ID    string   `json:"id"`
	Prop  string   `json:"prop"`
	What  string   `json:"what"`
	Class string   `json:"class"` // violation | known:<signature>
	More  []string `json:"more,omitempty"`
}

type jSummary struct {
	Evaluated  map[string]int `json:"evaluated"`
	NonTrivial map[string]int `json:"nontrivial"`
	Skipped    map[string]int `json:"skipped"`
	Findings   []jFinding     `json:"findings"`
	Samples    map[string][]any `json:"samples"`
	Trouble    []string       `json:"trouble"`
	Cases      int            `json:"cases"`
	Accepted   int            `json:"accepted"`
}

func accepted(r *runObs) bool { return r != nil && r.Exit == 0 && !r.Panicked && !r.TimedOut }

func sortedStrings(xs []string) []string {
	out := append([]string{}, xs...)
	sort.Strings(out)
	return out
}

func opKey(verb, path string) string { return verb + " " + path }

func secString(alts []oaSec) string {
	parts := []string{}
	for _, a := range alts {
		parts = append(parts, a.Scheme+"["+strings.Join(a.Scopes, ",")+"]")
	}
	return strings.Join(parts, " | ")
}

func judgeCase(rec *caseRecord, sum *jSummary) {
	add := func(prop, what string, more ...string) {
		sum.Findings = append(sum.Findings, jFinding{ID: rec.ID, Prop: prop, What: what, Class: "violation", More: more})
	}
	eval := func(prop string, nontrivial bool) {
		sum.Evaluated[prop]++
		if nontrivial {
			sum.NonTrivial[prop]++
			if len(sum.Samples[prop]) < 3 {
				sum.Samples[prop] = append(sum.Samples[prop], map[string]any{"id": rec.ID, "cfg": rec.Case.Cfg, "ctrls": rec.Case.Ctrls, "methods": rec.Case.Methods})
			}
		}
	}
	var exp jExpect
	if err := json.Unmarshal(rec.Case.Expect, &exp); err != nil {
		sum.Trouble = append(sum.Trouble, rec.ID+": bad expect: "+err.Error())
		return
	}
	for _, n := range rec.Notes {
		if strings.HasPrefix(n, "harness:") {
			sum.Trouble = append(sum.Trouble, rec.ID+": "+n)
			return
		}
	}
	if rec.Build != "" {
		// the concretised project does not compile before gleece is involved: harness trouble, never a verdict
		sum.Trouble = append(sum.Trouble, rec.ID+": concretised project does not compile: "+rec.Build)
		return
	}
	main := rec.Runs["main"]
	if main == nil {
		return
	}
	sum.Cases++
	if accepted(main) {
		sum.Accepted++
	}
	pc := rec.Case
	multi := len(pc.Ctrls) >= 2
	hiddenAndVisible := false
	{
		h, v := false, false
		for _, m := range pc.Methods {
			if m.Hidden {
				h = true
			} else {
				v = true
			}
		}
		hiddenAndVisible = h && v
	}
	foreign := false
	for _, m := range pc.Methods {
		for _, c := range pc.Ctrls {
			if c.ID == m.Ctrl && c.File != m.File {
				foreign = true
			}
		}
	}

	// ---- C14: every run terminates with success or a reported error --------------------------------------------
	for name, r := range rec.Runs {
		eval("C14", len(r.Trace) >= 5)
		switch {
		case r.TimedOut:
			add("C14", fmt.Sprintf("run %s (%s) did not terminate within the watchdog", name, r.Cmd))
		case r.Panicked:
			add("C14", fmt.Sprintf("run %s (%s) crashed", name, r.Cmd), r.ErrLines...)
		case r.Exit != 0 && r.Exit != 1:
			add("C14", fmt.Sprintf("run %s (%s) exited with status %d", name, r.Cmd, r.Exit), r.OutTail)
		case r.Exit == 1 && len(r.ErrLines) == 0:
			add("C14", fmt.Sprintf("run %s (%s) failed without any error message", name, r.Cmd), r.OutTail)
		}
	}

	// ---- C01: operations are exactly the non-hidden annotated routes ---------------------------------------------
	checkOps := func(runName string, r *runObs) {
		if !accepted(r) || r.Spec == nil {
			return
		}
		if exp.Ambiguous {
			sum.Skipped["C01"]++
			return
		}
		eval("C01", hiddenAndVisible || multi || foreign)
		want := map[string]string{}
		for _, o := range exp.Ops {
			want[opKey(o.Verb, o.Path)] = fmt.Sprintf("opId=%s tag=%s deprecated=%v", o.OpID, o.Tag, o.Deprecated)
		}
		got := map[string]string{}
		for _, o := range r.Spec.Ops {
			tag := ""
			if len(o.Tags) > 0 {
				tag = o.Tags[0]
			}
			got[opKey(o.Verb, o.Path)] = fmt.Sprintf("opId=%s tag=%s deprecated=%v", o.OpID, tag, o.Deprecated)
			if len(o.Tags) != 1 {
				add("C01", fmt.Sprintf("%s: operation %s %s carries %d tags", runName, o.Verb, o.Path, len(o.Tags)))
			}
		}
		for k, w := range want {
			g, ok := got[k]
			if !ok {
				add("C01", fmt.Sprintf("%s (%s): annotated, non-hidden route %q is missing from the document", runName, r.Spec.Version, k))
			} else if g != w {
				add("C01", fmt.Sprintf("%s (%s): operation %q documented as {%s}, declared {%s}", runName, r.Spec.Version, k, g, w))
			}
		}
		for k := range got {
			if _, ok := want[k]; !ok {
				add("C01", fmt.Sprintf("%s (%s): document contains operation %q that no visible annotated method declares", runName, r.Spec.Version, k))
			}
		}
	}
	checkOps("main", main)
	checkOps("alt", rec.Runs["alt"])

	// ---- C04: documented security = effective security; undeclared scheme => no spec; enforce leaves no open route ----
	checkSec := func(runName string, r *runObs) {
		if r == nil {
			return
		}
		levels := 0
		if pc.Cfg.Default != nil && pc.Cfg.Default.Scheme != "" {
			levels++
		}
		for _, c := range pc.Ctrls {
			if len(c.Sec) > 0 {
				levels++
				break
			}
		}
		for _, m := range pc.Methods {
			if len(m.Sec) > 0 {
				levels++
				break
			}
		}
		eval("C04", levels >= 2)
		if !exp.SchemesDeclared && r.Spec != nil {
			add("C04", fmt.Sprintf("%s: a route names an undeclared security scheme yet a spec was written", runName))
		}
		if pc.Cfg.Enforce && !exp.EnforceOk && accepted(r) {
			add("C04", fmt.Sprintf("%s: enforceSecurityOnAllRoutes is set, a route has no effective security, yet the project was accepted", runName))
		}
		if !accepted(r) || r.Spec == nil || exp.Ambiguous {
			return
		}
		want := map[string]string{}
		for _, o := range exp.Security {
			want[opKey(o.Verb, o.Path)] = secString(o.Security)
		}
		for _, o := range r.Spec.Ops {
			alts := []oaSec{}
			for _, alt := range o.Security {
				if len(alt) != 1 {
					add("C04", fmt.Sprintf("%s: %s %s has a security alternative with %d schemes", runName, o.Verb, o.Path, len(alt)))
					continue
				}
				alts = append(alts, alt[0])
			}
			w, ok := want[opKey(o.Verb, o.Path)]
			if ok && secString(alts) != w {
				add("C04", fmt.Sprintf("%s (%s): %s %s documents security {%s}, effective security is {%s}", runName, r.Spec.Version, o.Verb, o.Path, secString(alts), w))
			}
			for _, a := range alts {
				if _, ok := r.Spec.Schemes[a.Scheme]; !ok {
					add("C04", fmt.Sprintf("%s: %s %s names scheme %q which components.securitySchemes does not declare", runName, o.Verb, o.Path, a.Scheme))
				}
			}
		}
		gotSchemes := []string{}
		for k := range r.Spec.Schemes {
			gotSchemes = append(gotSchemes, k)
		}
		if strings.Join(sortedStrings(gotSchemes), ",") != strings.Join(sortedStrings(pc.Cfg.Schemes), ",") {
			add("C04", fmt.Sprintf("%s: components.securitySchemes = %v, configured %v", runName, sortedStrings(gotSchemes), sortedStrings(pc.Cfg.Schemes)))
		}
	}
	checkSec("main", main)
	checkSec("alt", rec.Runs["alt"])

	// ---- C08: whatever spec file appears is closed -------------------------------------------------------------------
	for name, r := range rec.Runs {
		if r.Spec == nil || r.Closure == nil {
			continue
		}
		eval("C08", r.Closure.Refs > 0 && r.Closure.PathParams > 0)
		c := r.Closure
		for _, x := range c.DanglingRefs {
			add("C08", fmt.Sprintf("%s (%s): dangling reference %s", name, r.Spec.Version, x))
		}
		for _, x := range c.PlaceholderIssues {
			add("C08", fmt.Sprintf("%s (%s): %s", name, r.Spec.Version, x))
		}
		for _, x := range c.DuplicateParams {
			add("C08", fmt.Sprintf("%s (%s): duplicate parameter %s", name, r.Spec.Version, x))
		}
		for _, x := range c.MissingRespDesc {
			add("C08", fmt.Sprintf("%s (%s): response without description: %s", name, r.Spec.Version, x))
		}
		for _, x := range c.EnumTypeIssues {
			sum.Findings = append(sum.Findings, jFinding{ID: rec.ID, Prop: "C08", Class: "candidate:enum-type", What: fmt.Sprintf("%s (%s): %s", name, r.Spec.Version, x)})
		}
		if r.Spec.Version != "" {
			wantV := pc.Cfg.Version
			if name == "alt" {
				wantV = otherVersion(pc.Cfg.Version)
			}
			if r.Spec.Version != wantV {
				add("C08", fmt.Sprintf("%s: document declares openapi %q, configured %q", name, r.Spec.Version, wantV))
			}
		}
		if len(r.Spec.Servers) != 1 || r.Spec.Servers[0] != "https://api.example.com/v1" {
			add("C08", fmt.Sprintf("%s: servers = %v, configured baseUrl https://api.example.com/v1", name, r.Spec.Servers))
		}
		if asString(r.Spec.Info["title"]) != "Case API" || asString(r.Spec.Info["version"]) != "1.2.3" {
			add("C08", fmt.Sprintf("%s: info = %v does not carry the configured title/version", name, r.Spec.Info))
		}
	}

	// ---- C10 (file-system half): a rejected run writes nothing ----------------------------------------------------------
	// (the routes file written before a later spec failure is covered by the property's wording "error-severity diagnostic":
	//  only runs that failed on diagnostics / configuration must leave both outputs untouched)
	for name, r := range rec.Runs {
		failedOnDiags := false
		for _, ev := range r.Trace {
			if ev["event"] == "RunFailedOnDiagnostics" {
				failedOnDiags = true
			}
		}
		if failedOnDiags {
			eval("C10", true)
			if len(r.Fs.Created)+len(r.Fs.Modified)+len(r.Fs.Deleted)+len(r.Fs.Touched) > 0 {
				add("C10", fmt.Sprintf("%s: the run failed on error diagnostics yet the file system changed: %+v", name, r.Fs))
			}
			if r.Exit == 0 {
				add("C10", fmt.Sprintf("%s: error diagnostics exist yet the command exited 0", name))
			}
		}
	}
	if !exp.WellLinked {
		eval("C10", true)
		if accepted(main) {
			add("C10", "a route is not well-linked yet the project was accepted")
		}
	} else if exp.EnforceOk && exp.SchemesDeclared && exp.Accepted != nil && *exp.Accepted {
		eval("C10", len(pc.Methods) > 0)
		if !accepted(main) {
			add("C10", "every route is well-linked and nothing else is wrong, yet the project was rejected", main.ErrLines...)
		}
	}

	// ---- C13: repeated / re-scheduled runs give byte-identical artifacts ---------------------------------------------------
	if accepted(main) {
		others := 0
		for name, r := range rec.Runs {
			if !(strings.HasPrefix(name, "repeat") || strings.HasPrefix(name, "order")) {
				continue
			}
			others++
			if !accepted(r) {
				add("C13", fmt.Sprintf("run %s of the same project and configuration was rejected while the first was accepted", name), r.ErrLines...)
				continue
			}
			if r.RoutesSha != main.RoutesSha {
				add("C13", fmt.Sprintf("routes file of run %s (schedule %q) differs from the first run's", name, r.Order))
			}
			if r.SpecFile != nil && main.SpecFile != nil && r.SpecFile.Sha != main.SpecFile.Sha {
				add("C13", fmt.Sprintf("spec file of run %s (schedule %q) differs from the first run's", name, r.Order))
			}
		}
		if others > 0 {
			eval("C13", multi)
		}
	}
}

func pipeJudge(args []string) error {
	fs := flag.NewFlagSet("pipe-judge", flag.ExitOnError)
	recs := fs.String("records", "", "")
	outp := fs.String("out", "", "")
	fs.Parse(args)
	sum := &jSummary{Evaluated: map[string]int{}, NonTrivial: map[string]int{}, Skipped: map[string]int{}, Findings: []jFinding{}, Samples: map[string][]any{}, Trouble: []string{}}
	err := readLines(*recs, func(line []byte) error {
		var rec caseRecord
		if err := json.Unmarshal(line, &rec); err != nil {
			return fmt.Errorf("bad record: %v", err)
		}
		judgeCase(&rec, sum)
		return nil
	})
	if err != nil {
		return err
	}
	return writeJSONFile(*outp, sum)
}
