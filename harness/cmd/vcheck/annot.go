package main

// Family F5 — annotation comments (property C16).
//
// annot-replay : direction A. Each CASE from spec/Annotations.tla carries the comment lines exactly as the specification built
//                them and the expected parse (strict reading and as-built reading). The lines are written as the doc comment of a
//                function in a real Go file, parsed with go/parser, mapped with gast.MapDocListToCommentBlock and handed to
//                annotations.NewAnnotationHolder; Attributes(), NonAttributeComments() and GetDescription() are projected back.

import (
	"encoding/json"
	"flag"
	"fmt"
	"go/ast"
	"go/parser"
	"go/token"
	"reflect"
	"strings"

	"github.com/gopher-fleece/gleece/v2/core/annotations"
	"github.com/gopher-fleece/gleece/v2/gast"
)

func init() {
	commands["annot-replay"] = annotReplay
}

const unicodeSample = "é日本語ß"

type aAttr struct {
	Name  string `json:"name"`
	Value string `json:"value"`
	Props string `json:"props"`
	Desc  string `json:"desc"`
}

type aFree struct {
	Index int    `json:"index"`
	Value string `json:"value"`
}

type aExpect struct {
	Error       bool    `json:"error"`
	Attrs       []aAttr `json:"attrs"`
	Free        []aFree `json:"free"`
	Description string  `json:"description"`
}

type aObs struct {
	aExpect
	ErrText    string   `json:"err_text,omitempty"`
	Panic      string   `json:"panic,omitempty"`
	RangeNotes []string `json:"range_notes,omitempty"`
}

func subst(s string) string { return strings.ReplaceAll(s, "<U1>", unicodeSample) }

func normJSON(s string) any {
	if s == "" {
		return nil
	}
	var v any
	if err := json.Unmarshal([]byte(s), &v); err != nil {
		return "unparsable:" + s
	}
	return v
}

func runAnnot(lines []string) (obs aObs) {
	defer func() {
		if p := recover(); p != nil {
			obs.Panic = fmt.Sprint(p)
		}
	}()
	src := "package p\n\n" + strings.Join(lines, "\n") + "\nfunc F() {}\n"
	fset := token.NewFileSet()
	file, err := parser.ParseFile(fset, "/verif/case.go", src, parser.ParseComments)
	if err != nil {
		obs.Panic = "harness: go/parser rejected the generated file: " + err.Error()
		return
	}
	var doc *ast.CommentGroup
	for _, d := range file.Decls {
		if fd, ok := d.(*ast.FuncDecl); ok {
			doc = fd.Doc
		}
	}
	if doc == nil || len(doc.List) != len(lines) {
		obs.Panic = fmt.Sprintf("harness: doc comment has %d lines, wrote %d", func() int {
			if doc == nil {
				return 0
			}
			return len(doc.List)
		}(), len(lines))
		return
	}
	block := gast.MapDocListToCommentBlock(doc.List, fset)
	holder, err := annotations.NewAnnotationHolder(block, annotations.CommentSourceRoute)
	if err != nil {
		obs.Error = true
		obs.ErrText = err.Error()
		obs.Attrs, obs.Free = []aAttr{}, []aFree{}
		return
	}
	obs.Attrs, obs.Free = []aAttr{}, []aFree{}
	srcLines := strings.Split(src, "\n")
	for _, a := range holder.Attributes() {
		props := ""
		if a.Properties != nil {
			b, err := json.Marshal(a.Properties)
			if err != nil {
				props = "unmarshalable:" + err.Error()
			} else {
				props = string(b)
			}
		}
		obs.Attrs = append(obs.Attrs, aAttr{Name: a.Name, Value: a.Value, Props: props, Desc: a.Description})
		// range measurements (C18's "covers text equal to that value", measured here because the inputs are the same)
		if a.Value != "" {
			r := a.GetValueRange()
			if r.StartLine != r.EndLine || r.StartLine < 0 || r.StartLine >= len(srcLines) {
				obs.RangeNotes = append(obs.RangeNotes, fmt.Sprintf("value range of %q spans lines %d..%d", a.Value, r.StartLine, r.EndLine))
			} else {
				rs := []rune(srcLines[r.StartLine])
				if r.StartCol < 0 || r.EndCol > len(rs) || r.StartCol > r.EndCol {
					obs.RangeNotes = append(obs.RangeNotes, fmt.Sprintf("value range of %q is [%d,%d) outside line of %d runes", a.Value, r.StartCol, r.EndCol, len(rs)))
				} else if got := string(rs[r.StartCol:r.EndCol]); got != a.Value {
					obs.RangeNotes = append(obs.RangeNotes, fmt.Sprintf("value range of %q covers %q", a.Value, got))
				}
			}
		}
	}
	for _, f := range holder.NonAttributeComments() {
		obs.Free = append(obs.Free, aFree{Index: f.Index, Value: f.Value})
	}
	obs.Description = holder.GetDescription()
	return
}

func sameExpect(e aExpect, o aObs) (bool, string) {
	if e.Error != o.Error {
		return false, fmt.Sprintf("error: expected %v observed %v (%s)", e.Error, o.Error, o.ErrText)
	}
	if e.Error {
		return true, ""
	}
	if len(e.Attrs) != len(o.Attrs) {
		return false, fmt.Sprintf("attributes: expected %d observed %d", len(e.Attrs), len(o.Attrs))
	}
	for i := range e.Attrs {
		x, y := e.Attrs[i], o.Attrs[i]
		if subst(x.Name) != y.Name || subst(x.Value) != y.Value || subst(x.Desc) != y.Desc {
			return false, fmt.Sprintf("attribute %d: expected %+v observed %+v", i, x, y)
		}
		if !reflect.DeepEqual(normJSON(subst(x.Props)), normJSON(y.Props)) || (x.Props == "") != (y.Props == "") {
			return false, fmt.Sprintf("attribute %d properties: expected %q observed %q", i, x.Props, y.Props)
		}
	}
	if len(e.Free) != len(o.Free) {
		return false, fmt.Sprintf("free lines: expected %d observed %d", len(e.Free), len(o.Free))
	}
	for i := range e.Free {
		if e.Free[i].Index != o.Free[i].Index || subst(e.Free[i].Value) != o.Free[i].Value {
			return false, fmt.Sprintf("free line %d: expected %+v observed %+v", i, e.Free[i], o.Free[i])
		}
	}
	if subst(e.Description) != o.Description {
		return false, fmt.Sprintf("description: expected %q observed %q", subst(e.Description), o.Description)
	}
	return true, ""
}

type aMismatch struct {
	Lines    []string `json:"lines"`
	Class    string   `json:"class"`
	What     string   `json:"what"`
	Expected aExpect  `json:"expected"`
	Observed aObs     `json:"observed"`
}

func annotReplay(args []string) error {
	fs := flag.NewFlagSet("annot-replay", flag.ExitOnError)
	cases := fs.String("cases", "", "")
	outp := fs.String("out", "", "")
	maxMis := fs.Int("max-mismatches", 200, "")
	fs.Parse(args)
	type report struct {
		Cases      int         `json:"cases"`
		NonTrivial int         `json:"nontrivial"`
		AsBuilt    int         `json:"asbuilt_hits"`
		RangeNotes int         `json:"range_notes"`
		Mismatches []aMismatch `json:"mismatches"`
		Samples    []any       `json:"samples"`
	}
	rep := report{Mismatches: []aMismatch{}, Samples: []any{}}
	err := readLines(*cases, func(line []byte) error {
		s := tlcPayload(line)
		if !strings.HasPrefix(s, "CASE ") {
			return nil
		}
		var c struct {
			Lines   []string `json:"lines"`
			Hazard  bool     `json:"hazard"`
			Rich    bool     `json:"rich"`
			Expect  aExpect  `json:"expect"`
			AsBuilt aExpect  `json:"asbuilt"`
		}
		if err := json.Unmarshal([]byte(s[5:]), &c); err != nil {
			return fmt.Errorf("bad CASE: %v: %.300s", err, s)
		}
		rep.Cases++
		if c.Rich {
			rep.NonTrivial++
			if len(rep.Samples) < 3 && rep.Cases%97 == 0 {
				rep.Samples = append(rep.Samples, map[string]any{"lines": c.Lines})
			}
		}
		lines := make([]string, len(c.Lines))
		for i, l := range c.Lines {
			lines[i] = subst(l)
		}
		obs := runAnnot(lines)
		add := func(class, what string) {
			if class == "asbuilt" {
				rep.AsBuilt++
				if rep.AsBuilt > 10 {
					return // a handful of as-built samples is enough; never let them crowd out violations
				}
			}
			if len(rep.Mismatches) < *maxMis+10 {
				rep.Mismatches = append(rep.Mismatches, aMismatch{Lines: c.Lines, Class: class, What: what, Expected: c.Expect, Observed: obs})
			}
		}
		if obs.Panic != "" {
			if strings.HasPrefix(obs.Panic, "harness:") {
				return fmt.Errorf("%s (lines %q)", obs.Panic, c.Lines)
			}
			add("violation", "panic: "+obs.Panic)
			return nil
		}
		if len(obs.RangeNotes) > 0 {
			rep.RangeNotes++
		}
		if ok, _ := sameExpect(c.Expect, obs); ok {
			return nil
		}
		_, why := sameExpect(c.Expect, obs)
		if ok, _ := sameExpect(c.AsBuilt, obs); ok && c.Hazard {
			add("asbuilt", why)
		} else {
			add("violation", why)
		}
		return nil
	})
	if err != nil {
		return err
	}
	return writeJSONFile(*outp, rep)
}
