package main

// Family F7 — the long-lived analysis session (property C19, spec/Session.tla).
//
// session-one   runs ONE call history on ONE pipeline.GleecePipeline in this process (the way an editor integration keeps a
//               pipeline alive), measures after every call what the property talks about (the flattened metadata handed out,
//               the import serials in it, the symbol graph as seen through its public API, the diagnostics of Validate, the
//               OpenAPI bytes produced from the metadata), then does the same with a brand-new pipeline in the same process.
// session-run   concretises a few accepted projects (cases printed by TLC for the pipeline family), measures each in a fresh
//               process (the "fresh session" every comparison refers to) and spawns one session-one process per
//               (project, history) for the histories TLC enumerated from spec/Session.tla.
// session-judge projects every measurement into the specification's vocabulary - booleans "nothing returned", "empty",
//               "equal to the fresh session's", "equal to the first one of this session" - compares them field by field with
//               the expectation TLC printed for that step of that history (direction A) and writes the same projected
//               sequence as an NDJSON trace for spec/SessionTrace.tla (direction B).
// Nothing here knows what the right answer is: expectations are TLC's, the Go side only tests equalities of measurements.

import (
	"context"
	"crypto/sha256"
	"encoding/hex"
	"encoding/json"
	"flag"
	"fmt"
	"math/rand"
	"os"
	"os/exec"
	"path/filepath"
	"regexp"
	"sort"
	"strings"
	"sync"
	"time"

	gcmd "github.com/gopher-fleece/gleece/v2/cmd"
	gcommon "github.com/gopher-fleece/gleece/v2/common"
	"github.com/gopher-fleece/gleece/v2/core/pipeline"
	"github.com/gopher-fleece/gleece/v2/core/validators/diagnostics"
	"github.com/gopher-fleece/gleece/v2/definitions"
	"github.com/gopher-fleece/gleece/v2/generator/swagen"
	"github.com/gopher-fleece/gleece/v2/infrastructure/logger"
)

func init() {
	commands["session-one"] = sessionOne
	commands["session-run"] = sessionRun
	commands["session-judge"] = sessionJudge
}

var posRe = regexp.MustCompile(`@[0-9]+@`)

// mtimeRe: the modification-time part of a file version inside a symbol id ("path|unix-seconds|hash"). A file saved again with the
// same bytes is the same file: graphs are compared modulo this stamp (the content hash stays part of the identity).
var mtimeRe = regexp.MustCompile(`\|[0-9]+\|`)

var allSymKinds = []gcommon.SymKind{
	gcommon.SymKindUnknown, gcommon.SymKindPackage, gcommon.SymKindStruct, gcommon.SymKindController, gcommon.SymKindInterface,
	gcommon.SymKindAlias, gcommon.SymKindComposite, gcommon.SymKindTypeParam, gcommon.SymKindEnum, gcommon.SymKindEnumValue,
	gcommon.SymKindFunction, gcommon.SymKindReceiver, gcommon.SymKindField, gcommon.SymKindParameter, gcommon.SymKindVariable,
	gcommon.SymKindConstant, gcommon.SymKindReturnType, gcommon.SymKindBuiltin, gcommon.SymKindSpecialBuiltin,
}

// sMeasure is what is measured after one call. Hashes are over canonical text; no field is interpreted here.
type sMeasure struct {
	Call     string `json:"call"`
	Err      string `json:"err,omitempty"`
	Panic    string `json:"panic,omitempty"`
	Flat     string `json:"flat,omitempty"` // sha256 of the canonical flattened metadata, "" = the call hands out no metadata
	Ctrls    int    `json:"ctrls"`          // number of controllers / models / import entries in it
	Models   int    `json:"models"`
	Imports  int    `json:"imports"`
	Routes   int    `json:"routes"`
	Serials  string `json:"serials,omitempty"` // sha256 of the sorted (controller, operation, param|response, serial) list
	NSerials int    `json:"nserials"`
	Idents   string `json:"idents,omitempty"` // sha256 of the sorted generated-code identifiers (Imports map)
	Nodes    int    `json:"nodes"`
	Edges    int    `json:"edges"`
	Graph    string `json:"graph"` // sha256 of sorted node (id, kind) list + sorted edge keys (exact, comparable inside one process only:
	// ids carry token.Pos values that depend on the order in which packages.Load parsed the files)
	Shape    string  `json:"shape"`          // the same with every "@<pos>@" replaced, as a multiset: comparable across processes
	Diag     string  `json:"diag,omitempty"` // sha256 of the sorted diagnostics, "" = the call returns no diagnostics
	HasDiag  bool    `json:"hasDiag"`
	NDiag    int     `json:"ndiag"`
	Spec     string  `json:"spec,omitempty"` // sha256 of the OpenAPI bytes, "" = no spec generated at this step
	SpecErr  string  `json:"specErr,omitempty"`
	HasSpec  bool    `json:"hasSpec"`
	Wall     float64 `json:"wall"`
	FlatText string  `json:"flatText,omitempty"` // canonical text, only with --dump
}

type sResult struct {
	Stage string     `json:"stage"` // "config" | "pipeline" | "ok" | "panic"
	Err   string     `json:"err,omitempty"`
	Steps []sMeasure `json:"steps"`
	After []sMeasure `json:"after"` // the same process, a brand-new pipeline: Run, then GenerateSpec
}

func sha(s string) string {
	h := sha256.Sum256([]byte(s))
	return hex.EncodeToString(h[:10])
}

// flatCanon renders the flattened metadata deterministically: the Imports map values are sets (built from a Set in the
// pipeline) and so is Models.Aliases; everything else keeps the order the pipeline gave it.
func flatCanon(m *pipeline.GleeceFlattenedMetadata) (text string, idents string, nIdents int) {
	imp := map[string][]string{}
	all := []string{}
	for k, v := range m.Imports {
		c := append([]string{}, v...)
		sort.Strings(c)
		imp[k] = c
		for _, x := range c {
			all = append(all, k+"#"+x)
		}
	}
	sort.Strings(all)
	// Models.Aliases is composed in graph (map) order by symboldg.ComposeAliases: a set as far as this property is concerned
	aliases := make([]string, 0, len(m.Models.Aliases))
	for _, a := range m.Models.Aliases {
		aliases = append(aliases, mustJSON(a))
	}
	sort.Strings(aliases)
	models := map[string]any{"Structs": m.Models.Structs, "Enums": m.Models.Enums, "Aliases": aliases}
	doc := map[string]any{"Imports": imp, "Flat": m.Flat, "Models": models, "PlainErrorPresent": m.PlainErrorPresent}
	b, err := json.Marshal(doc)
	if err != nil {
		return "unmarshalable: " + err.Error(), sha(strings.Join(all, "\n")), len(all)
	}
	return string(b), sha(strings.Join(all, "\n")), len(all)
}

func serialList(m *pipeline.GleeceFlattenedMetadata) []string {
	out := []string{}
	for _, c := range m.Flat {
		for _, r := range c.Routes {
			for _, p := range r.FuncParams {
				out = append(out, fmt.Sprintf("%s.%s.%s param %s = %d", c.PkgPath, c.Name, r.OperationId, p.Name, p.UniqueImportSerial))
			}
			for i, rv := range r.Responses {
				out = append(out, fmt.Sprintf("%s.%s.%s response %d %s = %d", c.PkgPath, c.Name, r.OperationId, i, rv.Name, rv.UniqueImportSerial))
			}
		}
	}
	sort.Strings(out)
	return out
}

func measureGraph(p *pipeline.GleecePipeline, m *sMeasure) {
	g := p.Graph()
	nodes := g.FindByKind(allSymKinds...)
	ids := make([]string, 0, len(nodes))
	edges := map[string]bool{}
	for _, n := range nodes {
		ids = append(ids, n.Id.Id()+" "+string(n.Kind))
		for k, d := range g.GetEdges(n.Id, nil) {
			edges[k+" "+string(d.Edge.Kind)] = true
		}
	}
	sort.Strings(ids)
	ek := make([]string, 0, len(edges))
	for k := range edges {
		ek = append(ek, k)
	}
	sort.Strings(ek)
	m.Nodes, m.Edges = len(ids), len(ek)
	m.Graph = sha(mtimeRe.ReplaceAllString(strings.Join(ids, "\n")+"\n--\n"+strings.Join(ek, "\n"), "|_|"))
	strip := func(xs []string) []string {
		out := make([]string, len(xs))
		for i, x := range xs {
			out[i] = mtimeRe.ReplaceAllString(posRe.ReplaceAllString(x, "@_@"), "|_|")
			if touchDir != "" {
				out[i] = strings.ReplaceAll(out[i], touchDir, "$DIR") // (a private copy of the project has the same shape)
			}
		}
		sort.Strings(out)
		return out
	}
	m.Shape = sha(strings.Join(strip(ids), "\n") + "\n--\n" + strings.Join(strip(ek), "\n"))
}

func measureFlat(meta *pipeline.GleeceFlattenedMetadata, m *sMeasure, dump bool) {
	text, idents, nid := flatCanon(meta)
	m.Flat, m.Idents, m.Imports = sha(text), idents, nid
	m.Ctrls = len(meta.Flat)
	m.Models = len(meta.Models.Structs) + len(meta.Models.Enums) + len(meta.Models.Aliases)
	for _, c := range meta.Flat {
		m.Routes += len(c.Routes)
	}
	sl := serialList(meta)
	m.NSerials, m.Serials = len(sl), sha(strings.Join(sl, "\n"))
	if dump {
		m.FlatText = text
	}
}

func measureDiags(diags []diagnostics.EntityDiagnostic, m *sMeasure) {
	lines := []string{}
	var walk func(path string, e *diagnostics.EntityDiagnostic)
	walk = func(path string, e *diagnostics.EntityDiagnostic) {
		here := path + "/" + e.EntityKind + ":" + e.EntityName
		for _, d := range e.Diagnostics {
			// the message text is left out: ApiValidator words a route conflict after whichever route it met first, and it meets
			// them in graph (map) order - two fresh processes already differ there (determinism is C13's subject)
			fp := d.FilePath
			if cwd, err := os.Getwd(); err == nil {
				if rel, rerr := filepath.Rel(cwd, fp); rerr == nil && fp != "" {
					fp = rel // (a session on a private copy of the project names the same files)
				}
			}
			lines = append(lines, fmt.Sprintf("%s %s %d %s %d:%d-%d:%d", here, d.Code, d.Severity, fp,
				d.Range.StartLine, d.Range.StartCol, d.Range.EndLine, d.Range.EndCol))
		}
		for _, c := range e.Children {
			walk(here, c)
		}
	}
	for i := range diags {
		walk("", &diags[i])
	}
	sort.Strings(lines)
	m.HasDiag, m.NDiag, m.Diag = true, len(lines), sha(strings.Join(lines, "\n"))
}

// touchDir is the project directory of the session (set by sessionOne); touchSources re-saves its .go files byte for byte and
// moves their modification time forward by whole seconds (each call further than the last).
var touchDir string
var touchShift = 0

func touchSources(dir string) error {
	touchShift += 3
	return filepath.Walk(dir, func(p string, info os.FileInfo, err error) error {
		if err != nil || info.IsDir() || !strings.HasSuffix(p, ".go") {
			return err
		}
		b, rerr := os.ReadFile(p)
		if rerr != nil {
			return rerr
		}
		if werr := os.WriteFile(p, b, info.Mode()); werr != nil {
			return werr
		}
		t := info.ModTime().Add(time.Duration(touchShift) * time.Second)
		return os.Chtimes(p, t, t)
	})
}

// doCall performs one call of the history on the pipeline and measures. held is the metadata the caller (the "editor") holds.
func doCall(p *pipeline.GleecePipeline, cfg *definitions.GleeceConfig, call string, held **pipeline.GleeceFlattenedMetadata, dump bool) (m sMeasure) {
	m.Call = call
	t0 := time.Now()
	defer func() {
		if r := recover(); r != nil {
			m.Panic = fmt.Sprint(r)
		}
		m.Wall = time.Since(t0).Seconds()
	}()
	switch call {
	case "GenerateGraph":
		if err := p.GenerateGraph(); err != nil {
			m.Err = err.Error()
		}
	case "Validate":
		diags, err := p.Validate()
		if err != nil {
			m.Err = err.Error()
		} else {
			measureDiags(diags, &m)
		}
	case "GenerateIntermediate", "Run":
		var meta pipeline.GleeceFlattenedMetadata
		var err error
		if call == "Run" {
			meta, err = p.Run()
		} else {
			meta, err = p.GenerateIntermediate()
		}
		if err != nil {
			m.Err = err.Error()
			*held = nil
		} else {
			measureFlat(&meta, &m, dump)
			*held = &meta
		}
	case "GenerateSpec":
		// the generator consumes the metadata the caller holds (it appends to Models in place), exactly as cmd.GenerateSpec does
		if *held == nil {
			m.Err = "harness: no metadata held"
			break
		}
		meta := *held
		*held = nil
		b, err := swagen.GenerateSpec(&cfg.OpenAPIGeneratorConfig, meta.Flat, &meta.Models, meta.PlainErrorPresent)
		m.HasSpec = true
		if err != nil {
			m.SpecErr = err.Error()
		} else {
			m.Spec = sha(string(b))
		}
	case "Touch":
		// the environment's step: every source file of the project is saved again with the same bytes, a few seconds later
		if err := touchSources(touchDir); err != nil {
			m.Err = "harness: touch: " + err.Error()
		}
	default:
		m.Err = "harness: unknown call " + call
	}
	measureGraph(p, &m)
	return m
}

func sessionOne(args []string) error {
	fs := flag.NewFlagSet("session-one", flag.ExitOnError)
	dir := fs.String("dir", "", "")
	config := fs.String("config", "gleece.config.json", "")
	hist := fs.String("hist", "", "comma-separated calls")
	after := fs.Bool("after", true, "also measure a brand-new pipeline in this process afterwards")
	dump := fs.Bool("dump", false, "")
	fs.Parse(args)
	res := sResult{Steps: []sMeasure{}, After: []sMeasure{}}
	out := func() error {
		fmt.Println("SRESULT " + mustJSON(res))
		return nil
	}
	abs, err := filepath.Abs(*dir)
	if err != nil {
		return err
	}
	if err := os.Chdir(abs); err != nil {
		return err
	}
	touchDir = abs
	logger.SetLogLevel(logger.LogLevelNone)
	defer func() {
		if p := recover(); p != nil {
			res.Stage, res.Err = "panic", fmt.Sprint(p)
			out()
		}
	}()
	cfg, err := gcmd.LoadGleeceConfig(*config)
	if err != nil {
		res.Stage, res.Err = "config", err.Error()
		return out()
	}
	pipe, err := pipeline.NewGleecePipeline(cfg)
	if err != nil {
		res.Stage, res.Err = "pipeline", err.Error()
		return out()
	}
	var held *pipeline.GleeceFlattenedMetadata
	for _, call := range splitComma(*hist) {
		res.Steps = append(res.Steps, doCall(&pipe, cfg, call, &held, *dump))
	}
	if *after {
		cfg2, err := gcmd.LoadGleeceConfig(*config)
		if err != nil {
			res.Stage, res.Err = "config", "second load: "+err.Error()
			return out()
		}
		pipe2, err := pipeline.NewGleecePipeline(cfg2)
		if err != nil {
			res.Stage, res.Err = "pipeline", "second pipeline: "+err.Error()
			return out()
		}
		var held2 *pipeline.GleeceFlattenedMetadata
		for _, call := range []string{"Run", "GenerateSpec"} {
			res.After = append(res.After, doCall(&pipe2, cfg2, call, &held2, false))
		}
	}
	res.Stage = "ok"
	return out()
}

func splitComma(s string) []string {
	out := []string{}
	for _, x := range strings.Split(s, ",") {
		if x = strings.TrimSpace(x); x != "" {
			out = append(out, x)
		}
	}
	return out
}

func runSessionOne(self, dir string, hist []string, after bool, timeout time.Duration) (*sResult, string) {
	ctx, cancel := context.WithTimeout(context.Background(), timeout)
	defer cancel()
	for _, call := range hist {
		if call == "Touch" {
			// a history that re-saves the sources works on a private copy of the project: other sessions share the original
			priv, err := os.MkdirTemp(filepath.Dir(dir), filepath.Base(dir)+"-touch-")
			if err != nil {
				return nil, "private copy: " + err.Error()
			}
			defer os.RemoveAll(priv)
			if out, err := exec.Command("cp", "-a", dir+"/.", priv).CombinedOutput(); err != nil {
				return nil, fmt.Sprintf("private copy: %v: %s", err, out)
			}
			dir = priv
			break
		}
	}
	c := exec.CommandContext(ctx, self, "session-one", "--dir", dir, "--hist", strings.Join(hist, ","), fmt.Sprintf("--after=%v", after))
	env := []string{}
	for _, e := range os.Environ() {
		if strings.HasPrefix(e, "VERIF_TRACE=") || strings.HasPrefix(e, "VERIF_ORDER=") || strings.HasPrefix(e, "GOFLAGS=") || strings.HasPrefix(e, "GOPROXY=") {
			continue
		}
		env = append(env, e)
	}
	c.Env = append(env, "GOFLAGS=-mod=mod", "GOPROXY=off")
	outb, err := c.CombinedOutput()
	for _, l := range strings.Split(string(outb), "\n") {
		if strings.HasPrefix(l, "SRESULT ") {
			var r sResult
			if jerr := json.Unmarshal([]byte(l[8:]), &r); jerr == nil {
				return &r, ""
			}
		}
	}
	msg := string(outb)
	if len(msg) > 800 {
		msg = msg[len(msg)-800:]
	}
	return nil, fmt.Sprintf("%v: %s", err, msg)
}

// ---------------------------------------------------------------------------------------------------------------
// session-run

// sCase is one CASE line of SessionMC: a history and, per step, the fields the specification fixes.
type sCase struct {
	Hist  []string         `json:"hist"`
	Steps []map[string]any `json:"steps"`
	After []map[string]any `json:"after"`
}

type sRecord struct {
	Project  string     `json:"project"`
	Shape    string     `json:"shape"` // short description of the project
	Hist     []string   `json:"hist"`
	Expect   *sCase     `json:"expect"`
	Baseline []sMeasure `json:"baseline"` // fresh process, fresh pipeline: GenerateGraph, Validate, GenerateIntermediate, GenerateSpec
	Result   *sResult   `json:"result"`
	Trouble  string     `json:"trouble,omitempty"`
}

var baselineHist = []string{"GenerateGraph", "Validate", "GenerateIntermediate", "GenerateSpec"}

func loadSessionCases(path string) ([]*sCase, error) {
	out := []*sCase{}
	seen := map[string]bool{}
	err := readLines(path, func(line []byte) error {
		s := tlcPayload(line)
		if !strings.HasPrefix(s, "CASE ") {
			return nil
		}
		var c sCase
		if err := json.Unmarshal([]byte(s[5:]), &c); err != nil {
			return fmt.Errorf("bad session CASE: %v: %.200s", err, s)
		}
		k := strings.Join(c.Hist, ",")
		if len(c.Hist) == 0 || seen[k] {
			return nil
		}
		seen[k] = true
		out = append(out, &c)
		return nil
	})
	sort.Slice(out, func(i, j int) bool {
		if len(out[i].Hist) != len(out[j].Hist) {
			return len(out[i].Hist) < len(out[j].Hist)
		}
		return strings.Join(out[i].Hist, ",") < strings.Join(out[j].Hist, ",")
	})
	return out, err
}

func interesting(pc *pCase) (bool, string) {
	imported := 0
	for _, m := range pc.Methods {
		for _, s := range m.Sig {
			if strings.Contains(s.Type, ".") && !strings.HasPrefix(s.Type, "context.") {
				imported++
			}
		}
		for _, r := range m.Ret {
			if strings.Contains(r, ".") {
				imported++
			}
		}
	}
	shape := fmt.Sprintf("%d controllers, %d methods, %d types, %d imported type uses", len(pc.Ctrls), len(pc.Methods), len(pc.Types), imported)
	grouped := false
	for _, m := range pc.Methods {
		if len(m.Groups) > 0 {
			grouped = true
		}
	}
	return len(pc.Ctrls) >= 2 || imported > 0 || grouped, shape
}

// featureClass names what a project has that the session mechanisms are sensitive to:
//   "lazy-outside": a controller in a file no glob matches, in a package no glob touches but a matched route's type names
//   "composite":    map / generic / slice-of-declared types in signatures (composite graph nodes)
//   "twins":        controllers sharing a struct name across packages      "grouped": identifier lists in a signature
//   "spread":       a controller with methods in another file than its struct
//   "multi":        several controllers            "plain": the rest
func featureClass(pc *pCase) string {
	inside, outsidePk := map[string]bool{}, map[string]bool{}
	out := map[string]bool{}
	for _, c := range pc.Ctrls {
		if c.Outside {
			out[c.ID] = true
		} else {
			inside[c.Pkg] = true
		}
	}
	for _, c := range pc.Ctrls {
		if c.Outside && !inside[c.Pkg] {
			outsidePk[c.Pkg] = true
		}
	}
	lazy, composite := false, false
	for _, m := range pc.Methods {
		if out[m.Ctrl] {
			continue
		}
		ts := append([]string{}, m.Ret...)
		for _, sg := range m.Sig {
			ts = append(ts, sg.Type)
		}
		for _, t := range ts {
			for pk := range outsidePk {
				if strings.Contains(t, pk+".") {
					lazy = true
				}
			}
			if strings.Contains(t, "map[") || strings.Contains(t, "[]") && strings.Contains(t, ".") || strings.Contains(t, "[") && !strings.HasPrefix(t, "[]") && !strings.HasPrefix(t, "map[") {
				composite = true
			}
		}
	}
	// same-named controllers in two packages (every per-name memo is ambiguous there); identifier lists in a signature
	// (several parameters share one AST field)
	twins, grouped := false, false
	names := map[string]string{}
	for _, c := range pc.Ctrls {
		if c.Outside {
			continue
		}
		if pk, seen := names[c.Name]; seen && pk != c.Pkg {
			twins = true
		}
		names[c.Name] = c.Pkg
	}
	for _, m := range pc.Methods {
		if len(m.Groups) > 0 && !out[m.Ctrl] {
			grouped = true
		}
	}
	// a controller whose methods live in another file than its struct (receiver and controller carry different file versions)
	spread := false
	fileOf := map[string]string{}
	for _, c := range pc.Ctrls {
		fileOf[c.ID] = c.File
	}
	for _, m := range pc.Methods {
		if !out[m.Ctrl] && m.File != fileOf[m.Ctrl] {
			spread = true
		}
	}
	switch {
	case lazy:
		return "lazy-outside"
	case twins:
		return "twins"
	case grouped:
		return "grouped"
	case spread:
		return "spread"
	case composite:
		return "composite"
	case len(pc.Ctrls) >= 2:
		return "multi"
	}
	return "plain"
}

func measuresEqual(a, b []sMeasure) string {
	if len(a) != len(b) {
		return "different number of steps"
	}
	for i := range a {
		x, y := a[i], b[i]
		if x.Err != y.Err || x.Panic != y.Panic || x.Flat != y.Flat || x.Serials != y.Serials || x.Shape != y.Shape || x.Nodes != y.Nodes || x.Edges != y.Edges || x.Diag != y.Diag || x.Spec != y.Spec || x.SpecErr != y.SpecErr {
			return fmt.Sprintf("step %d (%s) differs between two fresh processes", i, x.Call)
		}
	}
	return ""
}

func sessionRun(args []string) error {
	fs := flag.NewFlagSet("session-run", flag.ExitOnError)
	casesPath := fs.String("cases", "", "pipeline CASE lines (projects)")
	histsPath := fs.String("hists", "", "session CASE lines (histories with expectations)")
	outp := fs.String("out", "", "records ndjson")
	metap := fs.String("meta", "", "summary json")
	repo := fs.String("repo", "/repo", "")
	work := fs.String("work", "", "")
	jobs := fs.Int("jobs", 8, "")
	nproj := fs.Int("projects", 6, "")
	allLen := fs.Int("all-len", 2, "histories up to this length run on every project; longer ones are dealt round-robin")
	seed := fs.Int64("seed", 1, "")
	only := fs.String("only-project", "", "")
	baseRepeats := fs.Int("baseline-repeats", 3, "fresh processes that must agree before a project is used")
	afterEvery := fs.Int("after-every", 1, "measure a brand-new pipeline in the same process after every n-th session")
	timeout := fs.Int("timeout", 120, "")
	fs.Parse(args)
	self, _ := os.Executable()
	rng := rand.New(rand.NewSource(*seed))
	projects, err := loadCases(*casesPath)
	if err != nil {
		return err
	}
	hists, err := loadSessionCases(*histsPath)
	if err != nil {
		return err
	}
	rng.Shuffle(len(projects), func(i, j int) { projects[i], projects[j] = projects[j], projects[i] })
	r := &runner{repo: *repo, timeout: time.Duration(*timeout) * time.Second}
	summary := map[string]any{}
	skipped := map[string]int{}
	type proj struct {
		pc       *pCase
		dir      string
		shape    string
		baseline []sMeasure
	}
	// 1. pick accepted, deterministic, non-trivial projects (measured on the real code in fresh processes)
	cand := []*pCase{}
	for _, pc := range projects {
		if *only != "" && pc.ID != *only {
			continue
		}
		if ok, _ := interesting(pc); ok || *only != "" {
			cand = append(cand, pc)
		}
	}
	// deal the candidates round-robin over feature classes, so that a small sample still has every kind of project
	{
		byClass := map[string][]*pCase{}
		order := []string{}
		for _, pc := range cand {
			k := featureClass(pc)
			if _, ok := byClass[k]; !ok {
				order = append(order, k)
			}
			byClass[k] = append(byClass[k], pc)
		}
		sort.Strings(order)
		dealt := []*pCase{}
		for len(dealt) < len(cand) {
			for _, k := range order {
				if l := byClass[k]; len(l) > 0 {
					dealt = append(dealt, l[0])
					byClass[k] = l[1:]
				}
			}
		}
		cand = dealt
		summary["classes"] = order
	}
	chosen := []*proj{}
	var mu sync.Mutex
	for start := 0; start < len(cand) && len(chosen) < *nproj; start += *jobs {
		end := start + *jobs
		if end > len(cand) {
			end = len(cand)
		}
		var wg sync.WaitGroup
		batch := make([]*proj, end-start)
		for i := start; i < end; i++ {
			wg.Add(1)
			go func(i int) {
				defer wg.Done()
				pc := cand[i]
				dir := filepath.Join(*work, "s-"+pc.ID)
				os.RemoveAll(dir)
				note := func(k string) { mu.Lock(); skipped[k]++; mu.Unlock() }
				if err := r.materialize(dir, pc, nil); err != nil {
					note("materialize failed")
					return
				}
				b1, t1 := runSessionOne(self, dir, baselineHist, false, r.timeout)
				if b1 == nil || b1.Stage != "ok" {
					_ = t1
					note("not accepted (config/pipeline stage)")
					return
				}
				for _, s := range b1.Steps {
					if s.Err != "" || s.Panic != "" || s.SpecErr != "" {
						note("not accepted (a call of the fresh session failed)")
						return
					}
				}
				if b1.Steps[1].NDiag > 0 && hasErrorDiag(dir, self) {
					note("not accepted (error diagnostics)")
					return
				}
				if b1.Steps[2].Ctrls == 0 || b1.Steps[2].Routes == 0 {
					note("trivial (no routes in the fresh analysis)")
					return
				}
				for k := 1; k < *baseRepeats; k++ {
					b2, _ := runSessionOne(self, dir, baselineHist, false, r.timeout)
					if b2 == nil || measuresEqual(b1.Steps, b2.Steps) != "" {
						note("fresh processes disagree (not this property's business)")
						return
					}
				}
				_, shape := interesting(pc)
				batch[i-start] = &proj{pc: pc, dir: dir, shape: shape, baseline: b1.Steps}
			}(i)
		}
		wg.Wait()
		for _, p := range batch {
			if p != nil && len(chosen) < *nproj {
				chosen = append(chosen, p)
			}
		}
	}
	summary["candidates"] = len(cand)
	summary["projects"] = len(chosen)
	summary["skipped"] = skipped
	// 2. the plan
	type job struct {
		p     *proj
		h     *sCase
		after bool
	}
	plan := []job{}
	long := []*sCase{}
	for _, h := range hists {
		if len(h.Hist) <= *allLen {
			for _, p := range chosen {
				plan = append(plan, job{p: p, h: h})
			}
		} else {
			long = append(long, h)
		}
	}
	rng.Shuffle(len(long), func(i, j int) { long[i], long[j] = long[j], long[i] })
	if len(chosen) > 0 {
		for i, h := range long {
			plan = append(plan, job{p: chosen[i%len(chosen)], h: h})
		}
	}
	nAfter := 0
	for i := range plan {
		plan[i].after = *afterEvery <= 1 || i%*afterEvery == 0
		if plan[i].after {
			nAfter++
		}
	}
	summary["sessions_followed_by_new_pipeline"] = nAfter
	summary["histories"] = len(hists)
	summary["sessions"] = len(plan)
	f, err := os.Create(*outp)
	if err != nil {
		return err
	}
	defer f.Close()
	ch := make(chan job)
	var wg sync.WaitGroup
	for i := 0; i < *jobs; i++ {
		wg.Add(1)
		go func() {
			defer wg.Done()
			for j := range ch {
				rec := sRecord{Project: j.p.pc.ID, Shape: j.p.shape, Hist: j.h.Hist, Expect: j.h, Baseline: j.p.baseline}
				res, trouble := runSessionOne(self, j.p.dir, j.h.Hist, j.after, r.timeout)
				rec.Result, rec.Trouble = res, trouble
				line := mustJSON(rec)
				mu.Lock()
				fmt.Fprintln(f, line)
				mu.Unlock()
			}
		}()
	}
	for _, j := range plan {
		ch <- j
	}
	close(ch)
	wg.Wait()
	if *metap != "" {
		return writeJSONFile(*metap, summary)
	}
	return nil
}

// hasErrorDiag asks the existing in-process validation command whether Run() would refuse the project.
func hasErrorDiag(dir, self string) bool {
	c := exec.Command(self, "pipe-validate1", "--dir", dir)
	c.Env = append(os.Environ(), "GOFLAGS=-mod=mod", "GOPROXY=off")
	out, _ := c.CombinedOutput()
	vr, err := parseVResult(string(out))
	return err != nil || vr.Stage != "ok" || vr.ErrText != ""
}

// ---------------------------------------------------------------------------------------------------------------
// session-judge

// project turns a measurement into the specification's observation record: only equalities between measurements.
// base = the fresh session (baselineHist order), first = first measurement of this session with a built graph / assigned serials.
func projectObs(m *sMeasure, base []sMeasure, firstGraph, firstSerials *sMeasure) map[string]any {
	bGraph, bDiag, bFlat, bSpec := base[0], base[1], base[2], base[3]
	o := map[string]any{"call": m.Call, "failed": m.Err != "" || m.Panic != "" || m.SpecErr != ""}
	flat := map[string]any{"returned": m.Flat != ""}
	if m.Flat != "" {
		flat["empty"] = m.Ctrls == 0 && m.Models == 0 && m.Imports == 0
		flat["eqFresh"] = m.Flat == bFlat.Flat
		flat["identsEqFresh"] = m.Idents == bFlat.Idents
	}
	o["flat"] = flat
	ser := map[string]any{"assigned": m.Flat != "" && m.NSerials > 0}
	if m.Flat != "" && m.NSerials > 0 {
		ser["eqFresh"] = m.Serials == bFlat.Serials
		ser["eqFirst"] = firstSerials == nil || m.Serials == firstSerials.Serials
	}
	o["serials"] = ser
	g := map[string]any{"empty": m.Nodes == 0 && m.Edges == 0}
	if !(m.Nodes == 0 && m.Edges == 0) {
		g["eqFresh"] = m.Shape == bGraph.Shape && m.Nodes == bGraph.Nodes && m.Edges == bGraph.Edges
		g["eqFirst"] = firstGraph == nil || (m.Graph == firstGraph.Graph && m.Nodes == firstGraph.Nodes && m.Edges == firstGraph.Edges)
		g["notGrown"] = firstGraph == nil || (m.Nodes <= firstGraph.Nodes && m.Edges <= firstGraph.Edges)
	}
	o["graph"] = g
	d := map[string]any{"returned": m.HasDiag}
	if m.HasDiag {
		d["zero"] = m.NDiag == 0
		d["eqFresh"] = m.Diag == bDiag.Diag
	}
	o["diag"] = d
	sp := map[string]any{"returned": m.HasSpec}
	if m.HasSpec {
		sp["eqFresh"] = m.Spec != "" && m.Spec == bSpec.Spec
	}
	o["spec"] = sp
	return o
}

func projectSession(steps []sMeasure, base []sMeasure) []map[string]any {
	out := []map[string]any{}
	var fg, fs *sMeasure
	for i := range steps {
		m := &steps[i]
		out = append(out, projectObs(m, base, fg, fs))
		if fg == nil && !(m.Nodes == 0 && m.Edges == 0) {
			fg = m
		}
		if fs == nil && m.Flat != "" && m.NSerials > 0 {
			fs = m
		}
	}
	return out
}

// covers: every field the expectation fixes must be present in the observation with the same value.
func covers(path string, exp, obs any, out *[]string) {
	switch e := exp.(type) {
	case map[string]any:
		o, ok := obs.(map[string]any)
		if !ok {
			*out = append(*out, fmt.Sprintf("%s: expected %s observed %s", path, mustJSON(exp), mustJSON(obs)))
			return
		}
		keys := make([]string, 0, len(e))
		for k := range e {
			keys = append(keys, k)
		}
		sort.Strings(keys)
		for _, k := range keys {
			ov, ok := o[k]
			if !ok {
				*out = append(*out, fmt.Sprintf("%s.%s: expected %s, not observed", path, k, mustJSON(e[k])))
				continue
			}
			covers(path+"."+k, e[k], ov, out)
		}
	default:
		if mustJSON(exp) != mustJSON(obs) {
			*out = append(*out, fmt.Sprintf("%s: expected %s observed %s", path, mustJSON(exp), mustJSON(obs)))
		}
	}
}

type sFinding struct {
	Project string   `json:"project"`
	Hist    []string `json:"hist"`
	Step    int      `json:"step"` // 0-based index in hist; len(hist)+k = k-th call of the new pipeline afterwards
	What    string   `json:"what"`
	Diffs   []string `json:"diffs"`
	Sig     string   `json:"sig"`
}

type sJudged struct {
	Sessions   int               `json:"sessions"`
	Steps      int               `json:"steps"`
	Nontrivial int               `json:"nontrivial"`
	Projects   map[string]string `json:"projects"`
	Findings   []sFinding        `json:"findings"`
	Trouble    []string          `json:"trouble"`
	Samples    []map[string]any  `json:"samples"`
	ByLen      map[string]int    `json:"byLen"`
}

func sessionJudge(args []string) error {
	fs := flag.NewFlagSet("session-judge", flag.ExitOnError)
	recs := fs.String("records", "", "")
	outp := fs.String("out", "", "")
	tracep := fs.String("trace", "", "NDJSON trace for SessionTrace.tla")
	idxp := fs.String("index", "", "trace line -> session")
	fs.Parse(args)
	j := sJudged{Projects: map[string]string{}, Findings: []sFinding{}, Trouble: []string{}, Samples: []map[string]any{}, ByLen: map[string]int{}}
	var tf, xf *os.File
	var err error
	if *tracep != "" {
		if tf, err = os.Create(*tracep); err != nil {
			return err
		}
		defer tf.Close()
		if xf, err = os.Create(*idxp); err != nil {
			return err
		}
		defer xf.Close()
	}
	emit := func(sid string, ev map[string]any) {
		if tf != nil {
			fmt.Fprintln(tf, mustJSON(ev))
			fmt.Fprintln(xf, sid)
		}
	}
	n := 0
	err = readLines(*recs, func(line []byte) error {
		var rec sRecord
		if err := json.Unmarshal(line, &rec); err != nil {
			return err
		}
		sid := fmt.Sprintf("%d %s %s", n, rec.Project, strings.Join(rec.Hist, ","))
		n++
		if rec.Result == nil || rec.Result.Stage != "ok" {
			msg := rec.Trouble
			if rec.Result != nil {
				msg = rec.Result.Stage + ": " + rec.Result.Err
			}
			if rec.Result != nil && rec.Result.Stage == "panic" {
				j.Findings = append(j.Findings, sFinding{Project: rec.Project, Hist: rec.Hist, Step: -1, What: "the session process panicked: " + msg, Sig: "panic"})
				return nil
			}
			j.Trouble = append(j.Trouble, fmt.Sprintf("session %s did not complete: %.300s", sid, msg))
			return nil
		}
		if len(rec.Baseline) != len(baselineHist) || len(rec.Result.Steps) != len(rec.Hist) || rec.Expect == nil || len(rec.Expect.Steps) != len(rec.Hist) {
			j.Trouble = append(j.Trouble, "malformed record "+sid)
			return nil
		}
		j.Sessions++
		j.Projects[rec.Project] = rec.Shape
		j.ByLen[fmt.Sprint(len(rec.Hist))]++
		obs := projectSession(rec.Result.Steps, rec.Baseline)
		after := projectSession(rec.Result.After, rec.Baseline)
		builds := 0
		for _, c := range rec.Hist {
			if c == "GenerateGraph" || c == "Run" {
				builds++
			}
		}
		if builds >= 2 {
			j.Nontrivial++
		}
		emit(sid, map[string]any{"ev": "New"})
		check := func(i int, exp map[string]any, o map[string]any, where string) {
			j.Steps++
			diffs := []string{}
			covers("", exp, o, &diffs)
			if len(diffs) > 0 {
				sig := []string{}
				for _, d := range diffs {
					sig = append(sig, strings.SplitN(d, ":", 2)[0])
				}
				j.Findings = append(j.Findings, sFinding{Project: rec.Project, Hist: rec.Hist, Step: i,
					What:  fmt.Sprintf("%s of history [%s] on project %s (%s): %s", where, strings.Join(rec.Hist, ","), rec.Project, rec.Shape, strings.Join(diffs, "; ")),
					Diffs: diffs, Sig: strings.Join(sig, ",")})
			}
		}
		for i := range obs {
			check(i, rec.Expect.Steps[i], obs[i], fmt.Sprintf("call %d (%s)", i+1, rec.Hist[i]))
			emit(sid, map[string]any{"ev": "Call", "call": rec.Hist[i], "obs": obs[i]})
		}
		if len(after) > 0 {
			if len(after) != len(rec.Expect.After) {
				j.Trouble = append(j.Trouble, "malformed after-part in "+sid)
				return nil
			}
			emit(sid, map[string]any{"ev": "New"})
			for i := range after {
				check(len(obs)+i, rec.Expect.After[i], after[i], fmt.Sprintf("call %d (%s) of a brand-new pipeline in the same process after", i+1, after[i]["call"]))
				emit(sid, map[string]any{"ev": "Call", "call": after[i]["call"], "obs": after[i]})
			}
		}
		if len(j.Samples) < 3 && builds >= 2 && len(rec.Hist) >= 3 {
			j.Samples = append(j.Samples, map[string]any{"project": rec.Project, "shape": rec.Shape, "hist": rec.Hist, "observed": obs})
		}
		return nil
	})
	if err != nil {
		return err
	}
	return writeJSONFile(*outp, j)
}
