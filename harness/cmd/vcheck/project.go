package main

// The concretiser: turns an abstract project (the record the TLA+ specification works with, printed by TLC as JSON)
// into a real Go module on disk — packages, files, controllers, annotated methods, types and gleece.config.json —
// with annotation text byte-for-byte as the case dictates. It contains no oracle: it only writes what the case says.

import (
	"encoding/json"
	"fmt"
	"os"
	"path/filepath"
	"regexp"
	"sort"
	"strings"
)

const caseModule = "example.com/vcase"

type pSec struct {
	Scheme string   `json:"scheme"`
	Scopes []string `json:"scopes"`
	// RawProps, when set, replaces the rendered properties object verbatim (hostile inputs, C14)
	RawProps string `json:"rawProps,omitempty"`
}

type pCfg struct {
	Engine    string   `json:"engine"`
	Version   string   `json:"version"`
	Enforce   bool     `json:"enforce"`
	Default   *pSec    `json:"default"`
	Schemes   []string `json:"schemes"`
	Perms     string   `json:"perms"`
	PkgName   string   `json:"pkgName"`
	Globs     []string `json:"globs"`
	RoutesOut string   `json:"routesOut"`
	SpecOut   string   `json:"specOut"`
	// Patch is a list of JSON-pointer-like edits applied to the rendered config document (C20 corruptions):
	// {"path":"routesConfig.engine","op":"set","value":"nope"} or {"path":...,"op":"delete"}
	Patch []pPatch `json:"patch,omitempty"`
	// Experimental flags
	ValidateTopLevelOnlyEnum bool `json:"validateTopLevelOnlyEnum,omitempty"`
	GenerateEnumValidator    bool `json:"generateEnumValidator,omitempty"`
	ValidateResponsePayload  bool `json:"validateResponsePayload,omitempty"`
}

type pPatch struct {
	Path  string `json:"path"`
	Op    string `json:"op"`
	Value any    `json:"value,omitempty"`
}

type pCtrl struct {
	ID     string   `json:"id"`
	Pkg    string   `json:"pkg"`
	File   string   `json:"file"`
	Name   string   `json:"name"`
	Prefix string   `json:"prefix"` // "" = no @Route annotation on the controller
	Tag    string   `json:"tag"`    // "" = no @Tag
	Sec    []pSec   `json:"sec"`
	Desc   string   `json:"desc"`
	Extra  []string `json:"extra,omitempty"` // raw extra comment lines
	// Outside: the controller's file is matched by no controllerGlobs pattern (the project still contains and compiles it)
	Outside bool `json:"outside,omitempty"`
}

type pSig struct {
	Name string `json:"name"`
	Type string `json:"type"` // fully qualified Go type expression, e.g. "string", "*int", "[]p2.Item", "context.Context"
}

type pAnn struct {
	Kind     string `json:"kind"`  // Path | Query | Header | FormField | Body
	Value    string `json:"value"` // referenced parameter name
	Alias    string `json:"alias,omitempty"`
	Validate string `json:"validate,omitempty"`
	Desc     string `json:"desc,omitempty"`
	RawProps string `json:"rawProps,omitempty"`
	Extra    string `json:"extra,omitempty"` // further "key: value" text inside the properties object (properties the annotation does not know)
}

type pErrResp struct {
	Code int    `json:"code"`
	Desc string `json:"desc,omitempty"`
}

type pMethod struct {
	Ctrl       string     `json:"ctrl"` // controller id
	File       string     `json:"file"`
	Name       string     `json:"name"`
	Verb       string     `json:"verb"`  // "" = no @Method
	Route      string     `json:"route"` // "" = no @Route
	Hidden     bool       `json:"hidden"`
	Deprecated bool       `json:"deprecated"`
	Sec        []pSec     `json:"sec"`
	Sig        []pSig     `json:"sig"`
	Anns       []pAnn     `json:"anns"`
	Ret        []string   `json:"ret"` // result types, e.g. ["error"], ["p1.Item","error"]
	Errors     []pErrResp `json:"errors"`
	Response   int        `json:"response"` // 0 = no @Response
	RespDesc   string     `json:"respDesc,omitempty"`
	Desc       string     `json:"desc"`
	Extra      []string   `json:"extra,omitempty"`
	ValueRecv  bool       `json:"valueRecv,omitempty"` // func (c AController) instead of (c *AController)
	Ptag       string     `json:"ptag,omitempty"`      // which perturbation(s) produced this method (label only)
	VerbProps  string     `json:"verbProps,omitempty"` // "key: value" text of a properties object on @Method (which takes none)
	Multiline  bool       `json:"multiline,omitempty"` // every parameter name on a line of its own
	HiddenSfx     string  `json:"hiddenSfx,omitempty"`     // text following "@Hidden" on its line
	DeprecatedSfx string  `json:"deprecatedSfx,omitempty"` // text following "@Deprecated" on its line
	Groups     []int      `json:"groups,omitempty"`    // identifier lists: [3,1] renders (a, b, c string, d int); empty = one name per declaration
}

type pField struct {
	Name  string `json:"name"`            // Go field name; "" with Embedded = embedded type
	Type  string `json:"type"`            // fully qualified type expression
	JSON  string `json:"json,omitempty"`  // json tag content ("" = no json tag)
	Valid string `json:"valid,omitempty"` // validate tag content
	Desc  string `json:"desc,omitempty"`
	Embed bool   `json:"embed,omitempty"`
	// Deprecated: the field carries its own "// @Deprecated" annotation (a usage-site marker)
	Deprecated bool `json:"deprecated,omitempty"`
}

type pConst struct {
	Name  string `json:"name"`
	Value string `json:"value"` // Go literal text
	File  string `json:"file,omitempty"` // another file of the enum's package ("" = next to the type)
}

type pType struct {
	Pkg    string   `json:"pkg"`
	File   string   `json:"file"`
	Name   string   `json:"name"`
	Kind   string   `json:"kind"`            // struct | enum | alias | aliasdecl (type A = T) | raw
	Base   string   `json:"base,omitempty"`  // underlying type for enum/alias
	Fields []pField `json:"fields,omitempty"`
	Consts []pConst `json:"consts,omitempty"`
	Desc   string   `json:"desc,omitempty"`
	Raw    string   `json:"raw,omitempty"`   // verbatim declaration text for kind raw
	ErrorT bool     `json:"errorT,omitempty"` // struct embeds error (custom error type)
	// Deprecated: the declaration carries "// @Deprecated"
	Deprecated bool `json:"deprecated,omitempty"`
}

type pCase struct {
	ID      string          `json:"id"`
	Cfg     pCfg            `json:"cfg"`
	Ctrls   []pCtrl         `json:"ctrls"`
	Methods []pMethod       `json:"methods"`
	Types   []pType         `json:"types"`
	Expect  json.RawMessage `json:"expect,omitempty"`
	Tags    []string        `json:"tags,omitempty"` // free-form labels from the spec (perturbation kinds, non-trivial markers)
	// Raw: the project exactly as TLC printed it (without "expect"), so that it can be handed back to TLC unchanged
	Raw json.RawMessage `json:"raw,omitempty"`
}

var qualRe = regexp.MustCompile(`\b([A-Za-z_][A-Za-z0-9_]*)\.([A-Za-z_][A-Za-z0-9_]*)`)

// localType strips the package qualifier when the type is used inside its own package and reports imports needed.
// importPrefix is the import path under which the case's packages live (caseModule, or caseModule/<id> inside a shared module)
var importPrefixDefault = caseModule

// pkgDir: a package id "p1_api" is the package in directory p1/api (named api); ids without '_' are their own directory
func pkgDir(p string) string { return strings.ReplaceAll(p, "_", "/") }

func localType(expr, inPkg string, imports map[string]bool, pkgs map[string]bool) string {
	return localTypeP(expr, inPkg, imports, pkgs, importPrefixDefault)
}

func localTypeP(expr, inPkg string, imports map[string]bool, pkgs map[string]bool, prefix string) string {
	return qualRe.ReplaceAllStringFunc(expr, func(m string) string {
		sm := qualRe.FindStringSubmatch(m)
		q, n := sm[1], sm[2]
		if q == inPkg {
			return n
		}
		switch q {
		case "time":
			imports["time"] = true
		case "context":
			imports["context"] = true
		case "runtime":
			imports["github.com/gopher-fleece/runtime"] = true
		default:
			if pkgs[q] {
				if strings.Contains(q, "_") {
					imports[q+" "+prefix+"/"+pkgDir(q)] = true // same-basename packages: imported under their id as alias
				} else {
					imports[prefix+"/"+q] = true
				}
			}
		}
		return m
	})
}

func commentLines(desc string) []string {
	if desc == "" {
		return nil
	}
	out := []string{}
	for _, l := range strings.Split(desc, "\n") {
		out = append(out, "// "+l)
	}
	return out
}

func secLines(secs []pSec) []string {
	out := []string{}
	for _, s := range secs {
		if s.RawProps != "" {
			out = append(out, fmt.Sprintf("// @Security(%s, %s)", s.Scheme, s.RawProps))
			continue
		}
		if len(s.Scopes) == 0 {
			out = append(out, fmt.Sprintf("// @Security(%s)", s.Scheme))
			continue
		}
		q := make([]string, len(s.Scopes))
		for i, x := range s.Scopes {
			q[i] = fmt.Sprintf("%q", x)
		}
		out = append(out, fmt.Sprintf("// @Security(%s, {scopes: [%s]})", s.Scheme, strings.Join(q, ", ")))
	}
	return out
}

func annLine(a pAnn) string {
	props := []string{}
	if a.Alias != "" {
		props = append(props, fmt.Sprintf("name: %q", a.Alias))
	}
	if a.Validate != "" {
		props = append(props, fmt.Sprintf("validate: %q", a.Validate))
	}
	if a.Extra != "" {
		props = append(props, a.Extra)
	}
	s := "// @" + a.Kind + "(" + a.Value
	if a.RawProps != "" {
		s += ", " + a.RawProps
	} else if len(props) > 0 {
		s += ", {" + strings.Join(props, ", ") + "}"
	}
	s += ")"
	if a.Desc != "" {
		s += " " + a.Desc
	}
	return s
}

// zeroReturn renders a return statement of zero values for the given result types.
func zeroReturn(ret []string) string {
	switch len(ret) {
	case 0:
		return "\treturn\n"
	}
	var sb strings.Builder
	names := []string{}
	for i, t := range ret {
		n := fmt.Sprintf("r%d", i)
		names = append(names, n)
		fmt.Fprintf(&sb, "\tvar %s %s\n", n, t)
	}
	sb.WriteString("\treturn " + strings.Join(names, ", ") + "\n")
	return sb.String()
}

type fileKey struct{ pkg, file string }

// bodyHook lets the router family substitute recording bodies; nil = zero-value bodies.
type bodyHook func(c pCtrl, m pMethod, retLocal []string, imports map[string]bool) string

func writeProject(dir string, pc *pCase, repo string, hook bodyHook) error {
	return writeProjectP(dir, pc, repo, hook, caseModule, true)
}

// writeProjectP writes the case's packages under dir; prefix is their import path prefix; withModule also writes go.mod/go.sum and the
// default authorization package.
func writeProjectP(dir string, pc *pCase, repo string, hook bodyHook, prefix string, withModule bool) error {
	localType := func(expr, inPkg string, imports map[string]bool, pkgs map[string]bool) string {
		return localTypeP(expr, inPkg, imports, pkgs, prefix)
	}
	pkgs := map[string]bool{}
	for _, c := range pc.Ctrls {
		pkgs[c.Pkg] = true
	}
	for _, t := range pc.Types {
		pkgs[t.Pkg] = true
	}
	ctrlByID := map[string]pCtrl{}
	for _, c := range pc.Ctrls {
		ctrlByID[c.ID] = c
	}
	type fileBuf struct {
		imports map[string]bool
		body    strings.Builder
	}
	files := map[fileKey]*fileBuf{}
	get := func(pkg, file string) *fileBuf {
		k := fileKey{pkg, file}
		if files[k] == nil {
			files[k] = &fileBuf{imports: map[string]bool{}}
		}
		return files[k]
	}

	for _, t := range pc.Types {
		fb := get(t.Pkg, t.File)
		for _, l := range commentLines(t.Desc) {
			fb.body.WriteString(l + "\n")
		}
		if t.Deprecated && t.Kind != "raw" {
			fb.body.WriteString("// @Deprecated\n")
		}
		switch t.Kind {
		case "raw":
			fb.body.WriteString(localType(t.Raw, t.Pkg, fb.imports, pkgs) + "\n\n")
		case "struct":
			fmt.Fprintf(&fb.body, "type %s struct {\n", t.Name)
			if t.ErrorT {
				fb.body.WriteString("\terror\n")
			}
			for _, f := range t.Fields {
				for _, l := range commentLines(f.Desc) {
					fb.body.WriteString("\t" + l + "\n")
				}
				if f.Deprecated {
					fb.body.WriteString("\t// @Deprecated\n")
				}
				tags := []string{}
				if f.JSON != "" {
					tags = append(tags, fmt.Sprintf(`json:"%s"`, f.JSON))
				}
				if f.Valid != "" {
					tags = append(tags, fmt.Sprintf(`validate:"%s"`, f.Valid))
				}
				tag := ""
				if len(tags) > 0 {
					tag = " `" + strings.Join(tags, " ") + "`"
				}
				ft := localType(f.Type, t.Pkg, fb.imports, pkgs)
				if f.Embed {
					fmt.Fprintf(&fb.body, "\t%s%s\n", ft, tag)
				} else {
					fmt.Fprintf(&fb.body, "\t%s %s%s\n", f.Name, ft, tag)
				}
			}
			fb.body.WriteString("}\n\n")
		case "enum":
			fmt.Fprintf(&fb.body, "type %s %s\n\n", t.Name, t.Base)
			byFile := map[string][]pConst{}
			order := []string{}
			for _, c := range t.Consts {
				if _, ok := byFile[c.File]; !ok {
					order = append(order, c.File)
				}
				byFile[c.File] = append(byFile[c.File], c)
			}
			for _, cf := range order {
				dst := fb
				if cf != "" {
					dst = get(t.Pkg, cf)
				}
				dst.body.WriteString("const (\n")
				for _, c := range byFile[cf] {
					fmt.Fprintf(&dst.body, "\t%s %s = %s\n", c.Name, t.Name, c.Value)
				}
				dst.body.WriteString(")\n\n")
			}
		case "alias":
			fmt.Fprintf(&fb.body, "type %s %s\n\n", t.Name, localType(t.Base, t.Pkg, fb.imports, pkgs))
		case "aliasdecl":
			fmt.Fprintf(&fb.body, "type %s = %s\n\n", t.Name, localType(t.Base, t.Pkg, fb.imports, pkgs))
		default:
			return fmt.Errorf("unknown type kind %q", t.Kind)
		}
	}

	for _, c := range pc.Ctrls {
		fb := get(c.Pkg, c.File)
		fb.imports["github.com/gopher-fleece/runtime"] = true
		lines := commentLines(c.Desc)
		if c.Tag != "" {
			lines = append(lines, "// @Tag("+c.Tag+")")
		}
		if c.Prefix != "" {
			lines = append(lines, "// @Route("+c.Prefix+")")
		}
		lines = append(lines, secLines(c.Sec)...)
		lines = append(lines, c.Extra...)
		for _, l := range lines {
			fb.body.WriteString(l + "\n")
		}
		fmt.Fprintf(&fb.body, "type %s struct {\n\truntime.GleeceController\n}\n\n", c.Name)
	}

	for _, m := range pc.Methods {
		c, ok := ctrlByID[m.Ctrl]
		if !ok {
			return fmt.Errorf("method %s refers to unknown controller %q", m.Name, m.Ctrl)
		}
		fb := get(c.Pkg, m.File)
		lines := commentLines(m.Desc)
		if m.Verb != "" {
			if m.VerbProps != "" {
				lines = append(lines, "// @Method("+m.Verb+", {"+m.VerbProps+"})")
			} else {
				lines = append(lines, "// @Method("+m.Verb+")")
			}
		}
		if m.Route != "" {
			lines = append(lines, "// @Route("+m.Route+")")
		}
		for _, a := range m.Anns {
			lines = append(lines, annLine(a))
		}
		lines = append(lines, secLines(m.Sec)...)
		if m.Response != 0 {
			l := fmt.Sprintf("// @Response(%d)", m.Response)
			if m.RespDesc != "" {
				l += " " + m.RespDesc
			}
			lines = append(lines, l)
		}
		for _, e := range m.Errors {
			l := fmt.Sprintf("// @ErrorResponse(%d)", e.Code)
			if e.Desc != "" {
				l += " " + e.Desc
			}
			lines = append(lines, l)
		}
		if m.Hidden {
			lines = append(lines, "// @Hidden"+m.HiddenSfx)
		}
		if m.Deprecated {
			lines = append(lines, "// @Deprecated"+m.DeprecatedSfx)
		}
		lines = append(lines, m.Extra...)
		for _, l := range lines {
			fb.body.WriteString(l + "\n")
		}
		params := []string{}
		groups := m.Groups
		if len(groups) == 0 {
			for range m.Sig {
				groups = append(groups, 1)
			}
		}
		at := 0
		for _, size := range groups {
			if size < 1 || at+size > len(m.Sig) {
				return fmt.Errorf("method %s: parameter groups %v do not fit its %d parameters", m.Name, m.Groups, len(m.Sig))
			}
			names := []string{}
			for _, p := range m.Sig[at : at+size] {
				if p.Type != m.Sig[at].Type {
					return fmt.Errorf("method %s: parameters of one identifier list must share a type", m.Name)
				}
				names = append(names, p.Name)
			}
			sep := ", "
			if m.Multiline {
				sep = ",\n\t"
			}
			params = append(params, strings.Join(names, sep)+" "+localType(m.Sig[at].Type, c.Pkg, fb.imports, pkgs))
			at += size
		}
		if at != len(m.Sig) {
			return fmt.Errorf("method %s: parameter groups %v do not cover its %d parameters", m.Name, m.Groups, len(m.Sig))
		}
		retLocal := []string{}
		for _, r := range m.Ret {
			retLocal = append(retLocal, localType(r, c.Pkg, fb.imports, pkgs))
		}
		retSig := ""
		switch len(retLocal) {
		case 0:
		case 1:
			retSig = " " + retLocal[0]
		default:
			retSig = " (" + strings.Join(retLocal, ", ") + ")"
		}
		recv := "*" + c.Name
		if m.ValueRecv {
			recv = c.Name
		}
		if m.Multiline && len(params) > 0 {
			fmt.Fprintf(&fb.body, "func (ctl_ %s) %s(\n\t%s,\n)%s {\n", recv, m.Name, strings.Join(params, ",\n\t"), retSig)
		} else {
			fmt.Fprintf(&fb.body, "func (ctl_ %s) %s(%s)%s {\n", recv, m.Name, strings.Join(params, ", "), retSig)
		}
		if hook != nil {
			fb.body.WriteString(hook(c, m, retLocal, fb.imports))
		} else {
			fb.body.WriteString(zeroReturn(retLocal))
		}
		fb.body.WriteString("}\n\n")
	}

	if err := os.MkdirAll(dir, 0o755); err != nil {
		return err
	}
	keys := make([]fileKey, 0, len(files))
	for k := range files {
		keys = append(keys, k)
	}
	sort.Slice(keys, func(i, j int) bool { return keys[i].pkg+"/"+keys[i].file < keys[j].pkg+"/"+keys[j].file })
	for _, k := range keys {
		fb := files[k]
		var sb strings.Builder
		fmt.Fprintf(&sb, "package %s\n\n", filepath.Base(pkgDir(k.pkg))) // a nested package "p1/f1x" lives in p1/f1x and is named f1x
		if len(fb.imports) > 0 {
			imps := make([]string, 0, len(fb.imports))
			for i := range fb.imports {
				imps = append(imps, i)
			}
			sort.Strings(imps)
			sb.WriteString("import (\n")
			for _, i := range imps {
				if a, path, aliased := strings.Cut(i, " "); aliased {
					fmt.Fprintf(&sb, "\t%s %q\n", a, path)
				} else {
					fmt.Fprintf(&sb, "\t%q\n", i)
				}
			}
			sb.WriteString(")\n\n")
		}
		sb.WriteString(fb.body.String())
		p := filepath.Join(dir, pkgDir(k.pkg), k.file+".go")
		if err := os.MkdirAll(filepath.Dir(p), 0o755); err != nil {
			return err
		}
		if err := os.WriteFile(p, []byte(sb.String()), 0o644); err != nil {
			return err
		}
	}

	if !withModule {
		return nil
	}
	// authorization package (user code; the router family replaces it with a scripted, recording one)
	auth := "package auth\n\nimport (\n\t\"context\"\n\n\t\"github.com/gopher-fleece/runtime\"\n)\n\n" +
		"func GleeceRequestAuthorization(ctx context.Context, engineCtx any, check runtime.SecurityCheck) (context.Context, *runtime.SecurityError) {\n\treturn ctx, nil\n}\n"
	if _, err := os.Stat(filepath.Join(dir, "auth", "auth.go")); err != nil {
		if err := os.MkdirAll(filepath.Join(dir, "auth"), 0o755); err != nil {
			return err
		}
		if err := os.WriteFile(filepath.Join(dir, "auth", "auth.go"), []byte(auth), 0o644); err != nil {
			return err
		}
	}

	// module files: the require blocks of the repository under test (so that every dependency resolves from the module cache)
	gomod, err := os.ReadFile(filepath.Join(repo, "go.mod"))
	if err != nil {
		return err
	}
	mod := regexp.MustCompile(`(?m)^module .*$`).ReplaceAllString(string(gomod), "module "+caseModule)
	if err := os.WriteFile(filepath.Join(dir, "go.mod"), []byte(mod), 0o644); err != nil {
		return err
	}
	gosum, err := os.ReadFile(filepath.Join(repo, "go.sum"))
	if err != nil {
		return err
	}
	if err := os.WriteFile(filepath.Join(dir, "go.sum"), gosum, 0o644); err != nil {
		return err
	}
	return nil
}

// renderConfig builds the gleece.config.json document for a case; version/outputs can be overridden for the second-dialect run.
func renderConfig(cfg pCfg, version, specOut string) ([]byte, error) {
	return renderConfigP(cfg, version, specOut, caseModule)
}

// schemeConfig is the configuration entry of a declared security scheme: an apiKey in a header, or - for names beginning with
// "oa" - an oauth2 scheme with two flows whose scope maps differ.
func schemeConfig(name string) map[string]any {
	if strings.HasPrefix(name, "oa") {
		return map[string]any{"description": "scheme " + name, "name": name, "type": "oauth2", "flows": map[string]any{
			"clientCredentials": map[string]any{"tokenUrl": "https://auth.example.com/token",
				"scopes": map[string]any{"read": "Read access", "write": "Write access", "admin": "Administrative access"}},
			"authorizationCode": map[string]any{"authorizationUrl": "https://auth.example.com/authorize", "tokenUrl": "https://auth.example.com/token",
				"scopes": map[string]any{"read": "Read only"}}}}
	}
	return map[string]any{"description": "scheme " + name, "name": name, "fieldName": "x-" + name, "type": "apiKey", "in": "header"}
}

// schemeDocument is what the OpenAPI document must say about that scheme (the configuration's fieldName is OpenAPI's name).
func schemeDocument(name string) map[string]any {
	c := schemeConfig(name)
	out := map[string]any{"description": c["description"], "type": c["type"]}
	if c["type"] == "apiKey" {
		out["name"], out["in"] = c["fieldName"], c["in"]
	} else {
		out["flows"] = c["flows"]
	}
	return out
}

func renderConfigP(cfg pCfg, version, specOut, prefix string) ([]byte, error) {
	globs := cfg.Globs
	if len(globs) == 0 {
		globs = []string{"./**/*.go"}
	}
	schemes := []any{}
	for _, s := range cfg.Schemes {
		schemes = append(schemes, schemeConfig(s))
	}
	routesOut := cfg.RoutesOut
	if routesOut == "" {
		routesOut = "./routes/gleece.go"
	}
	if specOut == "" {
		specOut = cfg.SpecOut
	}
	if specOut == "" {
		specOut = "./dist/openapi.json"
	}
	if version == "" {
		version = cfg.Version
	}
	routes := map[string]any{
		"engine":                  cfg.Engine,
		"outputPath":              routesOut,
		"skipGenerateDateComment": true,
		"authorizationConfig":     map[string]any{"authFileFullPackageName": prefix + "/auth", "enforceSecurityOnAllRoutes": cfg.Enforce},
	}
	if cfg.Perms != "" {
		routes["outputFilePerms"] = cfg.Perms
	}
	if cfg.PkgName != "" {
		routes["packageName"] = cfg.PkgName
	}
	if cfg.ValidateResponsePayload {
		routes["validateResponsePayload"] = true
	}
	openapi := map[string]any{
		"openapi":             version,
		"info":                map[string]any{"title": "Case API", "version": "1.2.3", "description": "generated case"},
		"baseUrl":             "https://api.example.com/v1",
		"securitySchemes":     schemes,
		"specGeneratorConfig": map[string]any{"outputPath": specOut},
	}
	if cfg.Default != nil && cfg.Default.Scheme != "" {
		sc := cfg.Default.Scopes
		if sc == nil {
			sc = []string{}
		}
		openapi["defaultSecurity"] = map[string]any{"name": cfg.Default.Scheme, "scopes": sc}
	}
	doc := map[string]any{
		"commonConfig":           map[string]any{"controllerGlobs": globs},
		"routesConfig":           routes,
		"openapiGeneratorConfig": openapi,
	}
	if cfg.ValidateTopLevelOnlyEnum || cfg.GenerateEnumValidator {
		doc["experimentalConfig"] = map[string]any{"validateTopLevelOnlyEnum": cfg.ValidateTopLevelOnlyEnum, "generateEnumValidator": cfg.GenerateEnumValidator}
	}
	for _, p := range cfg.Patch {
		applyPatch(doc, strings.Split(p.Path, "."), p)
	}
	return json.MarshalIndent(doc, "", "  ")
}

func applyPatch(doc map[string]any, path []string, p pPatch) {
	cur := doc
	for i, k := range path {
		if i == len(path)-1 {
			switch p.Op {
			case "delete":
				delete(cur, k)
			default:
				cur[k] = p.Value
			}
			return
		}
		next, ok := cur[k].(map[string]any)
		if !ok {
			if p.Op == "delete" {
				return
			}
			next = map[string]any{}
			cur[k] = next
		}
		cur = next
	}
}
