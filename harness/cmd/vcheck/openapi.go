package main

// The projector for OpenAPI documents: a plain JSON walk (no OpenAPI library, so that the check shares no blind spot
// with the libraries gleece itself calls) from the written spec bytes to the specification's vocabulary.

import (
	"fmt"
	"sort"
	"strings"
)

var httpVerbs = []string{"get", "post", "put", "delete", "patch", "head", "options", "trace"}

type oaSec struct {
	Scheme string   `json:"scheme"`
	Scopes []string `json:"scopes"`
}

type oaParam struct {
	Name       string `json:"name"`
	In         string `json:"in"`
	Required   bool   `json:"required"`
	Deprecated bool   `json:"deprecated"`
	Schema     any    `json:"schema"`
	Desc       string `json:"desc"`
}

type oaBody struct {
	Required bool           `json:"required"`
	Content  map[string]any `json:"content"` // mime -> schema
	Desc     string         `json:"desc"`
}

type oaResp struct {
	Desc    *string        `json:"desc"` // nil = description key absent
	Content map[string]any `json:"content"`
}

type oaOp struct {
	Verb       string            `json:"verb"`
	Path       string            `json:"path"`
	OpID       string            `json:"opId"`
	Tags       []string          `json:"tags"`
	Deprecated bool              `json:"deprecated"`
	Security   [][]oaSec         `json:"security"` // nil = key absent
	HasSec     bool              `json:"hasSecurity"`
	Params     []oaParam         `json:"params"`
	Body       *oaBody           `json:"body"`
	Responses  map[string]oaResp `json:"responses"`
	Desc       string            `json:"desc"`
}

type oaDoc struct {
	Version    string         `json:"version"`
	Info       map[string]any `json:"info"`
	Servers    []string       `json:"servers"`
	Schemes    map[string]any `json:"schemes"`
	Ops        []oaOp         `json:"ops"`
	Components map[string]any `json:"components"`
	PathKeys   []string       `json:"pathKeys"`
	Problems   []string       `json:"problems"` // structural surprises met while walking
}

func asMap(v any) map[string]any {
	m, _ := v.(map[string]any)
	return m
}
func asSlice(v any) []any {
	s, _ := v.([]any)
	return s
}
func asString(v any) string {
	s, _ := v.(string)
	return s
}
func asBool(v any) bool {
	b, _ := v.(bool)
	return b
}

func projectContent(v any) map[string]any {
	out := map[string]any{}
	for mime, mt := range asMap(v) {
		out[mime] = asMap(mt)["schema"]
	}
	return out
}

func projectSpec(doc map[string]any) oaDoc {
	d := oaDoc{Version: asString(doc["openapi"]), Info: asMap(doc["info"]), Schemes: map[string]any{}, Components: map[string]any{}}
	for _, s := range asSlice(doc["servers"]) {
		d.Servers = append(d.Servers, asString(asMap(s)["url"]))
	}
	comps := asMap(doc["components"])
	for k, v := range asMap(comps["securitySchemes"]) {
		d.Schemes[k] = v
	}
	for k, v := range asMap(comps["schemas"]) {
		d.Components[k] = v
	}
	paths := asMap(doc["paths"])
	keys := make([]string, 0, len(paths))
	for p := range paths {
		keys = append(keys, p)
	}
	sort.Strings(keys)
	d.PathKeys = keys
	for _, p := range keys {
		item := asMap(paths[p])
		for k := range item {
			known := false
			for _, v := range httpVerbs {
				if k == v {
					known = true
				}
			}
			if !known && k != "parameters" && k != "summary" && k != "description" && k != "servers" {
				d.Problems = append(d.Problems, fmt.Sprintf("path item %s has unexpected key %q", p, k))
			}
		}
		for _, verb := range httpVerbs {
			raw, ok := item[verb]
			if !ok {
				continue
			}
			o := asMap(raw)
			op := oaOp{Verb: verb, Path: p, OpID: asString(o["operationId"]), Deprecated: asBool(o["deprecated"]),
				Desc: asString(o["description"]), Responses: map[string]oaResp{}, Params: []oaParam{}, Tags: []string{}}
			for _, t := range asSlice(o["tags"]) {
				op.Tags = append(op.Tags, asString(t))
			}
			if sec, ok := o["security"]; ok {
				op.HasSec = true
				op.Security = [][]oaSec{}
				for _, req := range asSlice(sec) {
					alt := []oaSec{}
					for name, scopes := range asMap(req) {
						sc := []string{}
						for _, s := range asSlice(scopes) {
							sc = append(sc, asString(s))
						}
						alt = append(alt, oaSec{Scheme: name, Scopes: sc})
					}
					sort.Slice(alt, func(i, j int) bool { return alt[i].Scheme < alt[j].Scheme })
					op.Security = append(op.Security, alt)
				}
			}
			for _, pr := range asSlice(o["parameters"]) {
				pm := asMap(pr)
				op.Params = append(op.Params, oaParam{Name: asString(pm["name"]), In: asString(pm["in"]), Required: asBool(pm["required"]),
					Deprecated: asBool(pm["deprecated"]), Schema: pm["schema"], Desc: asString(pm["description"])})
			}
			if rb, ok := o["requestBody"]; ok {
				b := asMap(rb)
				op.Body = &oaBody{Required: asBool(b["required"]), Content: projectContent(b["content"]), Desc: asString(b["description"])}
			}
			for code, r := range asMap(o["responses"]) {
				rm := asMap(r)
				resp := oaResp{Content: projectContent(rm["content"])}
				if dv, ok := rm["description"]; ok {
					s := asString(dv)
					resp.Desc = &s
				}
				op.Responses[code] = resp
			}
			d.Ops = append(d.Ops, op)
		}
	}
	return d
}

// closure facts (C08), collected by a plain walk over the raw document
type oaClosure struct {
	DanglingRefs     []string `json:"danglingRefs"`
	PlaceholderIssues []string `json:"placeholderIssues"`
	DuplicateParams  []string `json:"duplicateParams"`
	MissingRespDesc  []string `json:"missingRespDesc"`
	EnumTypeIssues   []string `json:"enumTypeIssues"`
	Refs             int      `json:"refs"`
	PathParams       int      `json:"pathParams"`
}

func placeholders(path string) []string {
	out := []string{}
	start := -1
	for i, ch := range path {
		if ch == '{' {
			start = i
		} else if ch == '}' && start >= 0 {
			out = append(out, path[start+1:i])
			start = -1
		}
	}
	return out
}

func jsonTypeOf(v any) string {
	switch t := v.(type) {
	case string:
		return "string"
	case bool:
		return "boolean"
	case float64:
		if t == float64(int64(t)) {
			return "integer"
		}
		return "number"
	case nil:
		return "null"
	case []any:
		return "array"
	case map[string]any:
		return "object"
	}
	return "?"
}

func enumOK(schemaType any, v any) bool {
	types := []string{}
	switch t := schemaType.(type) {
	case string:
		types = []string{t}
	case []any:
		for _, x := range t {
			types = append(types, asString(x))
		}
	default:
		return true // untyped schema: any value allowed
	}
	jt := jsonTypeOf(v)
	for _, t := range types {
		if t == jt || (t == "number" && jt == "integer") {
			return true
		}
	}
	return false
}

func closureOf(doc map[string]any) oaClosure {
	c := oaClosure{DanglingRefs: []string{}, PlaceholderIssues: []string{}, DuplicateParams: []string{}, MissingRespDesc: []string{}, EnumTypeIssues: []string{}}
	schemas := asMap(asMap(doc["components"])["schemas"])
	var walk func(where string, v any)
	walk = func(where string, v any) {
		switch t := v.(type) {
		case map[string]any:
			if ref, ok := t["$ref"].(string); ok {
				c.Refs++
				const pfx = "#/components/schemas/"
				if !strings.HasPrefix(ref, pfx) {
					c.DanglingRefs = append(c.DanglingRefs, where+": "+ref)
				} else if _, ok := schemas[strings.TrimPrefix(ref, pfx)]; !ok {
					c.DanglingRefs = append(c.DanglingRefs, where+": "+ref)
				}
			}
			if en, ok := t["enum"].([]any); ok {
				for _, e := range en {
					if !enumOK(t["type"], e) {
						c.EnumTypeIssues = append(c.EnumTypeIssues, fmt.Sprintf("%s: enum value %v (%s) in schema of type %v", where, e, jsonTypeOf(e), t["type"]))
					}
				}
			}
			keys := make([]string, 0, len(t))
			for k := range t {
				keys = append(keys, k)
			}
			sort.Strings(keys)
			for _, k := range keys {
				walk(where+"/"+k, t[k])
			}
		case []any:
			for i, x := range t {
				walk(fmt.Sprintf("%s/%d", where, i), x)
			}
		}
	}
	walk("#", doc)
	for p, item := range asMap(doc["paths"]) {
		for _, verb := range httpVerbs {
			o, ok := asMap(item)[verb]
			if !ok {
				continue
			}
			op := asMap(o)
			seen := map[string]int{}
			pathParams := map[string]bool{}
			for _, pr := range asSlice(op["parameters"]) {
				pm := asMap(pr)
				key := asString(pm["in"]) + ":" + asString(pm["name"])
				seen[key]++
				if asString(pm["in"]) == "path" {
					c.PathParams++
					pathParams[asString(pm["name"])] = true
					if !asBool(pm["required"]) {
						c.PlaceholderIssues = append(c.PlaceholderIssues, fmt.Sprintf("%s %s: path parameter %q is not required", verb, p, pm["name"]))
					}
				}
			}
			for k, n := range seen {
				if n > 1 {
					c.DuplicateParams = append(c.DuplicateParams, fmt.Sprintf("%s %s: %s x%d", verb, p, k, n))
				}
			}
			ph := map[string]int{}
			for _, x := range placeholders(p) {
				ph[x]++
			}
			for x, n := range ph {
				if n > 1 {
					c.PlaceholderIssues = append(c.PlaceholderIssues, fmt.Sprintf("%s %s: placeholder {%s} occurs %d times", verb, p, x, n))
				}
				if !pathParams[x] {
					c.PlaceholderIssues = append(c.PlaceholderIssues, fmt.Sprintf("%s %s: placeholder {%s} has no path parameter", verb, p, x))
				}
			}
			for x := range pathParams {
				if ph[x] == 0 {
					c.PlaceholderIssues = append(c.PlaceholderIssues, fmt.Sprintf("%s %s: path parameter %q has no placeholder", verb, p, x))
				}
			}
			for code, r := range asMap(op["responses"]) {
				if _, ok := asMap(r)["description"]; !ok {
					c.MissingRespDesc = append(c.MissingRespDesc, fmt.Sprintf("%s %s: response %s", verb, p, code))
				}
			}
		}
	}
	sort.Strings(c.DanglingRefs)
	sort.Strings(c.PlaceholderIssues)
	sort.Strings(c.DuplicateParams)
	sort.Strings(c.MissingRespDesc)
	sort.Strings(c.EnumTypeIssues)
	return c
}
