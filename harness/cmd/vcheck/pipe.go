package main

// Family F1 — the pipeline. pipe-run concretises every CASE of a cases file into a Go module, runs the real gleece CLI on it
// (fresh process per run, hooks tracing to $VERIF_TRACE), projects exit status, file-system delta, written artifacts and the
// hook trace into an observation record, and writes one NDJSON record per case. Comparison with the expectations TLC printed
// is done per aspect (one aspect per property) by pipe-judge.go.

import (
	"bytes"
	"context"
	"crypto/sha256"
	"encoding/hex"
	"encoding/json"
	"flag"
	"fmt"
	"io/fs"
	"os"
	"os/exec"
	"path/filepath"
	"sort"
	"strings"
	"sync"
	"time"
)

func init() {
	commands["pipe-conform"] = pipeConform
	commands["pipe-run"] = pipeRun
	commands["pipe-materialize"] = pipeMaterialize
	commands["pipe-trace"] = pipeTrace
}

type fileFact struct {
	Sha  string `json:"sha"`
	Mode string `json:"mode"`
	Mod  int64  `json:"mod"`
}

type fsDelta struct {
	Created  []string `json:"created"`
	Modified []string `json:"modified"`
	Deleted  []string `json:"deleted"`
	Touched  []string `json:"touched"` // same bytes, newer mtime
}

type runObs struct {
	Cmd        string           `json:"cmd"`
	Config     string           `json:"config"`
	Order      string           `json:"order,omitempty"`
	Exit       int              `json:"exit"`
	Panicked   bool             `json:"panicked"`
	TimedOut   bool             `json:"timedOut"`
	Wall       float64          `json:"wall"`
	OutTail    string           `json:"outTail"`
	ErrLines   []string         `json:"errLines"`
	Trace      []map[string]any `json:"trace"`
	Fs         fsDelta          `json:"fs"`
	RoutesFile *fileFact        `json:"routesFile"`
	RoutesPkg  string           `json:"routesPkg,omitempty"`
	RoutesSha  string           `json:"routesSha,omitempty"`
	SpecFile   *fileFact        `json:"specFile"`
	Spec       *oaDoc           `json:"spec"`
	Closure    *oaClosure       `json:"closure"`
	SpecErr    string           `json:"specErr,omitempty"`
	SpecInfo   map[string]any   `json:"-"`
}

type caseRecord struct {
	ID     string             `json:"id"`
	Case   *pCase             `json:"case"`
	Dir    string             `json:"dir,omitempty"`
	Runs   map[string]*runObs `json:"runs"`
	Build    string           `json:"prebuild"` // "" = the concretised project compiles before gleece is involved
	Validate *vResult         `json:"validate,omitempty"`
	Notes  []string           `json:"notes,omitempty"`
}

func snapshot(root string) map[string]fileFact {
	out := map[string]fileFact{}
	filepath.WalkDir(root, func(p string, d fs.DirEntry, err error) error {
		if err != nil || d.IsDir() {
			return nil
		}
		rel, _ := filepath.Rel(root, p)
		if rel == "trace.ndjson" || strings.HasPrefix(rel, ".verif") {
			return nil
		}
		b, err := os.ReadFile(p)
		if err != nil {
			return nil
		}
		st, _ := os.Stat(p)
		h := sha256.Sum256(b)
		out[rel] = fileFact{Sha: hex.EncodeToString(h[:8]), Mode: fmt.Sprintf("%04o", st.Mode().Perm()), Mod: st.ModTime().UnixNano()}
		return nil
	})
	return out
}

func delta(before, after map[string]fileFact) fsDelta {
	d := fsDelta{Created: []string{}, Modified: []string{}, Deleted: []string{}, Touched: []string{}}
	for k, a := range after {
		b, ok := before[k]
		switch {
		case !ok:
			d.Created = append(d.Created, k)
		case b.Sha != a.Sha || b.Mode != a.Mode:
			d.Modified = append(d.Modified, k)
		case b.Mod != a.Mod:
			d.Touched = append(d.Touched, k)
		}
	}
	for k := range before {
		if _, ok := after[k]; !ok {
			d.Deleted = append(d.Deleted, k)
		}
	}
	sort.Strings(d.Created)
	sort.Strings(d.Modified)
	sort.Strings(d.Deleted)
	sort.Strings(d.Touched)
	return d
}

type runner struct {
	gleece  string
	repo    string
	timeout time.Duration
}

// runCLI executes one gleece command in dir and observes it.
func (r *runner) runCLI(dir, sub, config, routesOut, specOut, order string) *runObs {
	return r.runCLIEnv(dir, sub, config, routesOut, specOut, order, nil)
}

// runCLIEnv: extra holds further environment settings of the child process (the scheduler's degrees of freedom, e.g. GOMAXPROCS)
func (r *runner) runCLIEnv(dir, sub, config, routesOut, specOut, order string, extra []string) *runObs {
	obs := &runObs{Cmd: sub, Config: config, Order: order, ErrLines: []string{}}
	trace := filepath.Join(dir, "trace.ndjson")
	os.Remove(trace)
	before := snapshot(dir)
	ctx, cancel := context.WithTimeout(context.Background(), r.timeout)
	defer cancel()
	args := []string{"--no-banner"}
	args = append(args, strings.Fields(sub)...)
	args = append(args, "-c", config)
	cmd := exec.CommandContext(ctx, r.gleece, args...)
	cmd.Dir = dir
	env := []string{}
	for _, e := range os.Environ() {
		if strings.HasPrefix(e, "VERIF_TRACE=") || strings.HasPrefix(e, "VERIF_ORDER=") || strings.HasPrefix(e, "GOFLAGS=") || strings.HasPrefix(e, "GOPROXY=") {
			continue
		}
		env = append(env, e)
	}
	env = append(env, "VERIF_TRACE="+trace, "GOFLAGS=-mod=mod", "GOPROXY=off")
	if order != "" {
		env = append(env, "VERIF_ORDER="+order)
	}
	env = append(env, extra...)
	cmd.Env = env
	var buf bytes.Buffer
	cmd.Stdout = &buf
	cmd.Stderr = &buf
	t0 := time.Now()
	err := cmd.Run()
	obs.Wall = time.Since(t0).Seconds()
	if ctx.Err() == context.DeadlineExceeded {
		obs.TimedOut = true
		obs.Exit = -1
	} else if err != nil {
		if ee, ok := err.(*exec.ExitError); ok {
			obs.Exit = ee.ExitCode()
		} else {
			obs.Exit = -2
			obs.ErrLines = append(obs.ErrLines, "harness: "+err.Error())
		}
	}
	out := buf.String()
	if strings.Contains(out, "panic:") || strings.Contains(out, "goroutine 1 [") || strings.Contains(out, "fatal error:") {
		obs.Panicked = true
	}
	for _, l := range strings.Split(out, "\n") {
		if strings.Contains(l, "[FATAL]") || strings.Contains(l, "[ERROR]") || strings.HasPrefix(l, "panic:") {
			if len(obs.ErrLines) < 12 {
				if len(l) > 400 {
					l = l[:400]
				}
				obs.ErrLines = append(obs.ErrLines, l)
			}
		}
	}
	if len(out) > 1500 {
		out = out[len(out)-1500:]
	}
	obs.OutTail = out
	if b, err := os.ReadFile(trace); err == nil {
		for _, l := range bytes.Split(b, []byte("\n")) {
			if len(l) == 0 {
				continue
			}
			var ev map[string]any
			if json.Unmarshal(l, &ev) == nil {
				obs.Trace = append(obs.Trace, ev)
			}
		}
	}
	after := snapshot(dir)
	obs.Fs = delta(before, after)
	if routesOut != "" {
		if f, ok := after[filepath.Clean(routesOut)]; ok {
			ff := f
			obs.RoutesFile = &ff
			if b, err := os.ReadFile(filepath.Join(dir, routesOut)); err == nil {
				h := sha256.Sum256(b)
				obs.RoutesSha = hex.EncodeToString(h[:])
				for _, l := range strings.Split(string(b), "\n") {
					if strings.HasPrefix(l, "package ") {
						obs.RoutesPkg = strings.TrimSpace(strings.TrimPrefix(l, "package "))
						break
					}
				}
			}
		}
	}
	if specOut != "" {
		if f, ok := after[filepath.Clean(specOut)]; ok {
			ff := f
			obs.SpecFile = &ff
			b, err := os.ReadFile(filepath.Join(dir, specOut))
			if err == nil {
				h := sha256.Sum256(b)
				ff.Sha = hex.EncodeToString(h[:])
				obs.SpecFile = &ff
				var doc map[string]any
				if err := json.Unmarshal(b, &doc); err != nil {
					obs.SpecErr = "spec file is not JSON: " + err.Error()
				} else if _, stale := doc["stale"]; !stale {
					d := projectSpec(doc)
					c := closureOf(doc)
					obs.Spec, obs.Closure = &d, &c
				}
			}
		}
	}
	return obs
}

// stale outputs are LONGER than anything a run writes: an output that is overwritten without being truncated keeps a stale tail
var staleRoutes = "// stale output left by an earlier run\npackage stale\n" + strings.Repeat("// stale stale stale stale stale stale stale stale stale stale stale stale stale stale stale stale\n", 6000)
var staleSpec = "{\"stale\": true, \"pad\": \"" + strings.Repeat("stale ", 80000) + "\"}\n"

func effOut(cfg pCfg) (routesOut, specOut string) {
	routesOut, specOut = cfg.RoutesOut, cfg.SpecOut
	if routesOut == "" {
		routesOut = "./routes/gleece.go"
	}
	if specOut == "" {
		specOut = "./dist/openapi.json"
	}
	return
}

func otherVersion(v string) string {
	if v == "3.1.0" {
		return "3.0.0"
	}
	return "3.1.0"
}

func ctrlPkgs(pc *pCase) []string {
	pk := map[string]bool{}
	for _, c := range pc.Ctrls {
		pk[c.Pkg] = true
	}
	out := []string{}
	for p := range pk {
		out = append(out, "./"+pkgDir(p))
	}
	sort.Strings(out)
	return out
}

// defaultGlobs: every file of every controller package - unless the project has "outside" controllers (files no glob matches):
// then exactly the files that hold the other controllers and their methods.
func defaultGlobs(pc *pCase) []string {
	outside := map[string]bool{}
	for _, c := range pc.Ctrls {
		if c.Outside {
			outside[c.ID] = true
		}
	}
	out := []string{}
	if len(outside) == 0 {
		for _, p := range ctrlPkgs(pc) {
			out = append(out, p+"/*.go")
		}
		return out
	}
	seen := map[string]bool{}
	add := func(pkg, file string) {
		g := "./" + pkgDir(pkg) + "/" + file + ".go"
		if !seen[g] {
			seen[g] = true
			out = append(out, g)
		}
	}
	pkgOf := map[string]string{}
	for _, c := range pc.Ctrls {
		pkgOf[c.ID] = c.Pkg
		if !c.Outside {
			add(c.Pkg, c.File)
		}
	}
	for _, m := range pc.Methods {
		if !outside[m.Ctrl] {
			add(pkgOf[m.Ctrl], m.File)
		}
	}
	sort.Strings(out)
	return out
}

// scopedCase drops what the globs do not match: the judges compare gleece's output with the matched part of the project.
func scopedCase(pc *pCase) {
	outside := map[string]bool{}
	ctrls := []pCtrl{}
	for _, c := range pc.Ctrls {
		if c.Outside {
			outside[c.ID] = true
		} else {
			ctrls = append(ctrls, c)
		}
	}
	if len(outside) == 0 {
		return
	}
	methods := pc.Methods[:0:0]
	for _, m := range pc.Methods {
		if !outside[m.Ctrl] {
			methods = append(methods, m)
		}
	}
	pc.Ctrls, pc.Methods = ctrls, methods
}

// materialize writes project, configs and stale outputs for a case.
func (r *runner) materialize(dir string, pc *pCase, hook bodyHook) error {
	if err := writeProject(dir, pc, r.repo, hook); err != nil {
		return err
	}
	cfg := pc.Cfg
	if len(cfg.Globs) == 0 {
		cfg.Globs = defaultGlobs(pc)
	}
	main, err := renderConfig(cfg, "", "")
	if err != nil {
		return err
	}
	if err := os.WriteFile(filepath.Join(dir, "gleece.config.json"), main, 0o644); err != nil {
		return err
	}
	alt, err := renderConfig(cfg, otherVersion(cfg.Version), "./dist/openapi.alt.json")
	if err != nil {
		return err
	}
	if err := os.WriteFile(filepath.Join(dir, "gleece.alt.config.json"), alt, 0o644); err != nil {
		return err
	}
	// the same configuration with another routing engine: the specification must not depend on it (C13)
	ecfg := cfg
	engs := []string{"gin", "echo", "mux", "chi", "fiber"}
	for i, e := range engs {
		if e == cfg.Engine {
			ecfg.Engine = engs[(i+2)%len(engs)]
		}
	}
	if ecfg.Engine != cfg.Engine {
		eng, err := renderConfig(ecfg, "", "./dist/openapi.engine.json")
		if err != nil {
			return err
		}
		if err := os.WriteFile(filepath.Join(dir, "gleece.engine.config.json"), eng, 0o644); err != nil {
			return err
		}
	}
	routesOut, specOut := effOut(cfg)
	for p, content := range map[string]string{routesOut: staleRoutes, specOut: staleSpec} {
		full := filepath.Join(dir, p)
		if err := os.MkdirAll(filepath.Dir(full), 0o755); err != nil {
			return err
		}
		if err := os.WriteFile(full, []byte(content), 0o600); err != nil {
			return err
		}
	}
	return nil
}

func goBuild(dir string, pkgs ...string) string {
	args := append([]string{"build"}, pkgs...)
	cmd := exec.Command("go", args...)
	cmd.Dir = dir
	cmd.Env = append(os.Environ(), "GOFLAGS=-mod=mod", "GOPROXY=off")
	out, err := cmd.CombinedOutput()
	if err != nil {
		s := string(out)
		if len(s) > 1200 {
			s = s[:1200]
		}
		return strings.TrimSpace(s)
	}
	return ""
}

type pipePlan struct {
	Main      bool     // spec-and-routes with the case's config
	Alt       bool     // generate spec with the other OpenAPI version
	Repeat    int      // extra identical fresh runs (Go map randomisation), C13
	Orders    []string // VERIF_ORDER schedules to replay, C13
	Prebuild  bool     // compile the concretised project first (self-check)
	SubCmds   []string // extra sub-commands to run (C14): "generate spec", "generate routes", "dump ..."
	Validate  bool     // in-process GenerateGraph + Validate with range measurements (C10, C18)
}

func (r *runner) runCase(work string, pc *pCase, plan pipePlan, keep bool) *caseRecord {
	rec := &caseRecord{ID: pc.ID, Case: pc, Runs: map[string]*runObs{}}
	dir := filepath.Join(work, pc.ID)
	os.RemoveAll(dir)
	if err := r.materialize(dir, pc, nil); err != nil {
		rec.Notes = append(rec.Notes, "harness: materialize failed: "+err.Error())
		return rec
	}
	if keep {
		rec.Dir = dir
	} else {
		defer os.RemoveAll(dir)
	}
	prebuild := func() {
		pk := []string{}
		pk = append(pk, ctrlPkgs(pc)...)
		pkT := map[string]bool{}
		for _, t := range pc.Types {
			pkT["./"+pkgDir(t.Pkg)] = true
		}
		for p := range pkT {
			found := false
			for _, x := range pk {
				if x == p {
					found = true
				}
			}
			if !found {
				pk = append(pk, p)
			}
		}
		rec.Build = goBuild(dir, pk...)
	}
	routesOut, specOut := effOut(pc.Cfg)
	if plan.Validate {
		self, _ := os.Executable()
		ctx, cancel := context.WithTimeout(context.Background(), r.timeout)
		cmd := exec.CommandContext(ctx, self, "pipe-validate1", "--dir", dir)
		cmd.Env = append(os.Environ(), "GOFLAGS=-mod=mod", "GOPROXY=off")
		out, err := cmd.CombinedOutput()
		cancel()
		if vr, perr := parseVResult(string(out)); perr == nil {
			rec.Validate = vr
		} else {
			msg := string(out)
			if len(msg) > 600 {
				msg = msg[len(msg)-600:]
			}
			rec.Validate = &vResult{Stage: "crash", Err: fmt.Sprintf("%v: %s", err, msg), Diags: []vDiag{}}
			if strings.Contains(msg, "panic:") || strings.Contains(msg, "goroutine ") {
				rec.Validate.Panic = msg
			}
		}
	}
	if plan.Main {
		rec.Runs["main"] = r.runCLI(dir, "generate spec-and-routes", "gleece.config.json", routesOut, specOut, "")
		// self-check of the concretiser, only when the failure smells like a project that does not compile
		if plan.Prebuild && rec.Runs["main"].Exit != 0 && (strings.Contains(rec.Runs["main"].OutTail, "Failed to fully load") || strings.Contains(rec.Runs["main"].OutTail, "could not load")) {
			prebuild()
		}
	}
	if plan.Alt {
		rec.Runs["alt"] = r.runCLI(dir, "generate spec", "gleece.alt.config.json", "", "./dist/openapi.alt.json", "")
	}
	// fresh-process repeats under different schedulers: the output must not depend on how many threads parse / analyse
	// (packages.Load parses the files of a package concurrently; GOMAXPROCS=1 serialises that, larger values race)
	procs := []string{"GOMAXPROCS=1", "", "GOMAXPROCS=2", "GOMAXPROCS=8", "", "GOMAXPROCS=3"}
	for i := 0; i < plan.Repeat; i++ {
		var extra []string
		if p := procs[i%len(procs)]; p != "" {
			extra = []string{p}
		}
		rec.Runs[fmt.Sprintf("repeat%d", i)] = r.runCLIEnv(dir, "generate spec-and-routes", "gleece.config.json", routesOut, specOut, "", extra)
	}
	if plan.Repeat > 0 {
		if _, err := os.Stat(filepath.Join(dir, "gleece.engine.config.json")); err == nil {
			rec.Runs["engine"] = r.runCLI(dir, "generate spec", "gleece.engine.config.json", "", "./dist/openapi.engine.json", "")
		}
	}
	for i, o := range plan.Orders {
		rec.Runs[fmt.Sprintf("order%d", i)] = r.runCLI(dir, "generate spec-and-routes", "gleece.config.json", routesOut, specOut, o)
	}
	for i, sc := range plan.SubCmds {
		rec.Runs[fmt.Sprintf("sub%d", i)] = r.runCLI(dir, sc, "gleece.config.json", routesOut, specOut, "")
	}
	return rec
}

func loadCases(path string) ([]*pCase, error) {
	cases := []*pCase{}
	seen := map[string]bool{}
	err := readLines(path, func(line []byte) error {
		s := tlcPayload(line)
		if !strings.HasPrefix(s, "CASE ") {
			return nil
		}
		var pc pCase
		if err := json.Unmarshal([]byte(s[5:]), &pc); err != nil {
			return fmt.Errorf("bad CASE: %v: %.300s", err, s)
		}
		var rawFields map[string]json.RawMessage
		if json.Unmarshal([]byte(s[5:]), &rawFields) == nil {
			delete(rawFields, "expect")
			delete(rawFields, "raw")
			pc.Raw, _ = json.Marshal(rawFields)
		}
		if pc.ID == "" {
			h := sha256.Sum256([]byte(s))
			pc.ID = "c" + hex.EncodeToString(h[:6])
		}
		if seen[pc.ID] {
			return nil
		}
		seen[pc.ID] = true
		cases = append(cases, &pc)
		return nil
	})
	return cases, err
}

func pipeRun(args []string) error {
	fs := flag.NewFlagSet("pipe-run", flag.ExitOnError)
	casesPath := fs.String("cases", "", "")
	outp := fs.String("out", "", "records ndjson")
	gleece := fs.String("gleece", "", "CLI binary built from the repository with -tags verif")
	repo := fs.String("repo", "/repo", "")
	work := fs.String("work", "", "scratch directory for projects")
	jobs := fs.Int("jobs", 8, "")
	limit := fs.Int("limit", 0, "")
	keep := fs.Bool("keep", false, "")
	alt := fs.Bool("alt", true, "")
	mainRun := fs.Bool("main", true, "")
	repeat := fs.Int("repeat", 0, "")
	orders := fs.String("orders", "", "'|'-separated VERIF_ORDER values")
	subcmds := fs.String("subcmds", "", "'|'-separated extra sub-commands")
	prebuild := fs.Bool("prebuild", true, "")
	validate := fs.Bool("validate", true, "")
	timeout := fs.Int("timeout", 150, "seconds per CLI run")
	fs.Parse(args)
	cases, err := loadCases(*casesPath)
	if err != nil {
		return err
	}
	if *limit > 0 && len(cases) > *limit {
		cases = cases[:*limit]
	}
	r := &runner{gleece: *gleece, repo: *repo, timeout: time.Duration(*timeout) * time.Second}
	plan := pipePlan{Main: *mainRun, Alt: *alt, Repeat: *repeat, Prebuild: *prebuild, Validate: *validate}
	if *orders != "" {
		plan.Orders = strings.Split(*orders, "|")
	}
	if *subcmds != "" {
		plan.SubCmds = strings.Split(*subcmds, "|")
	}
	f, err := os.Create(*outp)
	if err != nil {
		return err
	}
	defer f.Close()
	var mu sync.Mutex
	var wg sync.WaitGroup
	ch := make(chan *pCase)
	for i := 0; i < *jobs; i++ {
		wg.Add(1)
		go func() {
			defer wg.Done()
			for pc := range ch {
				rec := r.runCase(*work, pc, plan, *keep)
				line := mustJSON(rec)
				mu.Lock()
				fmt.Fprintln(f, line)
				mu.Unlock()
			}
		}()
	}
	for _, pc := range cases {
		ch <- pc
	}
	close(ch)
	wg.Wait()
	return nil
}

// pipe-materialize writes one case to a directory (for replays and debugging).
func pipeMaterialize(args []string) error {
	fs := flag.NewFlagSet("pipe-materialize", flag.ExitOnError)
	casesPath := fs.String("cases", "", "")
	id := fs.String("id", "", "")
	dir := fs.String("dir", "", "")
	repo := fs.String("repo", "/repo", "")
	fs.Parse(args)
	cases, err := loadCases(*casesPath)
	if err != nil {
		return err
	}
	for _, pc := range cases {
		if *id == "" || pc.ID == *id {
			r := &runner{repo: *repo}
			return r.materialize(*dir, pc, nil)
		}
	}
	return fmt.Errorf("case %q not found", *id)
}

// pipe-trace flattens the hook traces of all runs of a recording into one NDJSON trace for TLC (spec/PipelineTrace.tla),
// adding the harness' own measurements as events: Run (header), FsDelta and Exit. The index file maps each trace line back
// to its case and run.
func pipeTrace(args []string) error {
	fs := flag.NewFlagSet("pipe-trace", flag.ExitOnError)
	recs := fs.String("records", "", "")
	outp := fs.String("out", "", "")
	idx := fs.String("index", "", "")
	drop := fs.String("drop", "", "self-test: drop every event with this name")
	fs.Parse(args)
	f, err := os.Create(*outp)
	if err != nil {
		return err
	}
	defer f.Close()
	fi, err := os.Create(*idx)
	if err != nil {
		return err
	}
	defer fi.Close()
	emit := func(id, run string, ev map[string]any) {
		if *drop != "" && ev["event"] == *drop {
			return
		}
		fmt.Fprintln(f, mustJSON(ev))
		fmt.Fprintln(fi, id+" "+run)
	}
	return readLines(*recs, func(line []byte) error {
		var rec caseRecord
		if err := json.Unmarshal(line, &rec); err != nil {
			return err
		}
		names := make([]string, 0, len(rec.Runs))
		for n := range rec.Runs {
			names = append(names, n)
		}
		sort.Strings(names)
		for _, n := range names {
			r := rec.Runs[n]
			version := rec.Case.Cfg.Version
			if n == "alt" {
				version = otherVersion(version)
			}
			emit(rec.ID, n, map[string]any{"event": "Run", "cmd": r.Cmd, "version": version})
			for _, ev := range r.Trace {
				delete(ev, "seq")
				emit(rec.ID, n, ev)
			}
			specChanged := false
			for _, p := range append(append(append([]string{}, r.Fs.Created...), r.Fs.Modified...), r.Fs.Touched...) {
				if strings.HasSuffix(p, ".json") && strings.HasPrefix(p, "dist/") {
					specChanged = true
				}
			}
			emit(rec.ID, n, map[string]any{"event": "FsDelta", "changed": len(r.Fs.Created) + len(r.Fs.Modified) + len(r.Fs.Deleted) + len(r.Fs.Touched), "specChanged": specChanged})
			emit(rec.ID, n, map[string]any{"event": "Exit", "code": r.Exit, "panicked": r.Panicked, "timedOut": r.TimedOut, "msgEmpty": len(r.ErrLines) == 0})
		}
		return nil
	})
}

// pipe-conform writes, for every run of a recording, the header and events spec/PipelineConform.tla replays through the session
// machine of Pipeline.tla: the project as TLC printed it (its cfg extended with the command, the OpenAPI version of that run and
// asCoded), the hook events in order and the Exit measurement.
func pipeConform(args []string) error {
	fs := flag.NewFlagSet("pipe-conform", flag.ExitOnError)
	recs := fs.String("records", "", "")
	outp := fs.String("out", "", "")
	idx := fs.String("index", "", "")
	maxRuns := fs.Int("max-runs", 0, "0 = all")
	fs.Parse(args)
	f, err := os.Create(*outp)
	if err != nil {
		return err
	}
	defer f.Close()
	fi, err := os.Create(*idx)
	if err != nil {
		return err
	}
	defer fi.Close()
	runs := 0
	emit := func(id, run string, ev map[string]any) {
		fmt.Fprintln(f, mustJSON(ev))
		fmt.Fprintln(fi, id+" "+run)
	}
	return readLines(*recs, func(line []byte) error {
		var rec caseRecord
		if err := json.Unmarshal(line, &rec); err != nil {
			return err
		}
		if rec.Case == nil || len(rec.Case.Raw) == 0 || rec.Build != "" || len(rec.Notes) > 0 {
			return nil
		}
		names := make([]string, 0, len(rec.Runs))
		for n := range rec.Runs {
			names = append(names, n)
		}
		sort.Strings(names)
		for _, n := range names {
			r := rec.Runs[n]
			if *maxRuns > 0 && runs >= *maxRuns {
				return nil
			}
			if r.Order != "" {
				continue // forced schedules are C13's business; the Permute events carry no state
			}
			var cs map[string]any
			if json.Unmarshal(rec.Case.Raw, &cs) != nil {
				continue
			}
			cfg, _ := cs["cfg"].(map[string]any)
			if cfg == nil {
				continue
			}
			version := rec.Case.Cfg.Version
			if n == "alt" {
				version = otherVersion(version)
			}
			cfg["version"] = version
			cfg["cmd"] = strings.TrimPrefix(r.Cmd, "generate ")
			cfg["asCoded"] = true
			delete(cs, "id")
			runs++
			emit(rec.ID, n, map[string]any{"event": "Run", "case": cs})
			for _, ev := range r.Trace {
				delete(ev, "seq")
				emit(rec.ID, n, ev)
			}
			emit(rec.ID, n, map[string]any{"event": "Exit", "code": r.Exit, "panicked": r.Panicked, "timedOut": r.TimedOut, "msgEmpty": len(r.ErrLines) == 0})
		}
		return nil
	})
}
