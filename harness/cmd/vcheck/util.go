package main

import (
	"bufio"
	"bytes"
	"encoding/json"
	"fmt"
	"os"
	"sort"
	"strings"
)

// canon canonicalises a decoded JSON value in which every array stands for a set:
// arrays are sorted by the canonical JSON text of their (canonicalised) elements and de-duplicated.
func canon(v any) any {
	switch t := v.(type) {
	case map[string]any:
		if len(t) == 0 {
			return []any{} // TLC prints a function with an empty domain as the empty tuple
		}
		out := make(map[string]any, len(t))
		for k, x := range t {
			out[k] = canon(x)
		}
		return out
	case []any:
		type item struct {
			txt string
			v   any
		}
		items := make([]item, 0, len(t))
		for _, x := range t {
			c := canon(x)
			items = append(items, item{mustJSON(c), c})
		}
		sort.Slice(items, func(i, j int) bool { return items[i].txt < items[j].txt })
		out := make([]any, 0, len(items))
		prev := ""
		for i, it := range items {
			if i > 0 && it.txt == prev {
				continue
			}
			prev = it.txt
			out = append(out, it.v)
		}
		return out
	default:
		return v
	}
}

func mustJSON(v any) string {
	var buf bytes.Buffer
	enc := json.NewEncoder(&buf)
	enc.SetEscapeHTML(false)
	if err := enc.Encode(v); err != nil {
		panic(err)
	}
	return strings.TrimRight(buf.String(), "\n")
}

// readLines streams the lines of a (possibly very large) file.
func readLines(path string, fn func(line []byte) error) error {
	f, err := os.Open(path)
	if err != nil {
		return err
	}
	defer f.Close()
	sc := bufio.NewScanner(f)
	sc.Buffer(make([]byte, 1<<20), 1<<28)
	for sc.Scan() {
		if err := fn(sc.Bytes()); err != nil {
			return err
		}
	}
	return sc.Err()
}

func writeJSONFile(path string, v any) error {
	b, err := json.MarshalIndent(v, "", " ")
	if err != nil {
		return err
	}
	return os.WriteFile(path, append(b, '\n'), 0o644)
}

// diffJSON gives a short list of paths at which two canonical values differ.
func diffJSON(path string, a, b any, out *[]string, limit int) {
	if len(*out) >= limit {
		return
	}
	switch at := a.(type) {
	case map[string]any:
		bt, ok := b.(map[string]any)
		if !ok {
			*out = append(*out, fmt.Sprintf("%s: %s vs %s", path, mustJSON(a), mustJSON(b)))
			return
		}
		keys := map[string]bool{}
		for k := range at {
			keys[k] = true
		}
		for k := range bt {
			keys[k] = true
		}
		ks := make([]string, 0, len(keys))
		for k := range keys {
			ks = append(ks, k)
		}
		sort.Strings(ks)
		for _, k := range ks {
			av, aok := at[k]
			bv, bok := bt[k]
			if !aok || !bok {
				*out = append(*out, fmt.Sprintf("%s.%s: %s vs %s", path, k, mustJSON(av), mustJSON(bv)))
				continue
			}
			diffJSON(path+"."+k, av, bv, out, limit)
		}
	case []any:
		// lists of equal length are compared element by element (the path then names the element that differs)
		if bt, ok := b.([]any); ok && len(bt) == len(at) && len(at) > 0 {
			for i := range at {
				diffJSON(fmt.Sprintf("%s[%d]", path, i), at[i], bt[i], out, limit)
			}
			return
		}
		if mustJSON(a) != mustJSON(b) {
			*out = append(*out, fmt.Sprintf("%s: expected %s observed %s", path, mustJSON(a), mustJSON(b)))
		}
	default:
		if mustJSON(a) != mustJSON(b) {
			*out = append(*out, fmt.Sprintf("%s: expected %s observed %s", path, mustJSON(a), mustJSON(b)))
		}
	}
}

// tlcPayload undoes TLC's printing of a string value: PrintT("CASE ...") appears on stdout as a quoted,
// backslash-escaped literal. Lines that are not such literals are returned unchanged.
func tlcPayload(line []byte) string {
	if len(line) > 1 && line[0] == '"' {
		var s string
		if err := json.Unmarshal(line, &s); err == nil {
			return s
		}
	}
	return string(line)
}
