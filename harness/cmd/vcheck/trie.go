package main

// Family F4 — route-conflict detection (property C15).
//
// trie-replay : direction A. Every CASE line from spec/PathTrie.tla carries a route list (verb + raw path text as the spec
//               rendered it), the set of entries the property says must be flagged, the admissible conflict pairs, and the
//               prediction of the two operational models (as built / keyed by entry). The real paths.FindConflicts is run on
//               the list, entries being identified through distinct Meta.Receiver values.
// trie-record : direction B. Seeded random lists (longer, wider alphabet) are run through FindConflicts and recorded for TLC.

import (
	"encoding/json"
	"flag"
	"fmt"
	"math/rand"
	"os"
	"sort"
	"strconv"
	"strings"

	"github.com/gopher-fleece/gleece/v2/core/metadata"
	"github.com/gopher-fleece/gleece/v2/core/validators/paths"
)

func init() {
	commands["trie-replay"] = trieReplay
	commands["trie-record"] = trieRecord
	commands["trie-run"] = trieRun
}

// trie-run executes the real detector on one given list (fresh process) and writes a single trace event for TLC to classify.
func trieRun(args []string) error {
	fs := flag.NewFlagSet("trie-run", flag.ExitOnError)
	listp := fs.String("list", "", "json file with the list")
	outp := fs.String("out", "", "")
	fs.Parse(args)
	b, err := os.ReadFile(*listp)
	if err != nil {
		return err
	}
	var list []tEntry
	if err := json.Unmarshal(b, &list); err != nil {
		return err
	}
	for i := range list {
		if list[i].Segs == nil {
			list[i].Segs = []string{}
		}
	}
	obs := runTrie(list)
	ev := map[string]any{"ev": "FindConflicts", "list": list, "flagged": obs.Flagged, "pairs": obs.Pairs}
	if obs.Panic != "" {
		ev["panic"] = obs.Panic
	}
	return os.WriteFile(*outp, []byte(mustJSON(ev)+"\n"), 0o644)
}

type tEntry struct {
	Verb string   `json:"verb"`
	Path string   `json:"path"`
	Segs []string `json:"segs"`
	Form string   `json:"form"`
}

type tObs struct {
	Flagged []int    `json:"flagged"`
	Pairs   [][2]int `json:"pairs"`
	Panic   string   `json:"panic,omitempty"`
}

// runTrie calls the real detector; entries are 1-based like the specification's sequence indices.
func runTrie(list []tEntry) (obs tObs) {
	defer func() {
		if p := recover(); p != nil {
			obs.Panic = fmt.Sprint(p)
		}
	}()
	entries := make([]paths.RouteEntry, len(list))
	for i, e := range list {
		entries[i] = paths.RouteEntry{Path: e.Path, Method: e.Verb, Meta: paths.RouteEntryMeta{
			Receiver: &metadata.ReceiverMeta{SymNodeMeta: metadata.SymNodeMeta{Name: "e" + strconv.Itoa(i+1)}}}}
	}
	conflicts := paths.FindConflicts(entries)
	fl := map[int]bool{}
	ps := map[[2]int]bool{}
	for _, c := range conflicts {
		a, _ := strconv.Atoi(strings.TrimPrefix(c.A.Meta.Receiver.Name, "e"))
		b, _ := strconv.Atoi(strings.TrimPrefix(c.B.Meta.Receiver.Name, "e"))
		fl[a], fl[b] = true, true
		if a > b {
			a, b = b, a
		}
		ps[[2]int{a, b}] = true
	}
	obs.Flagged = []int{}
	for k := range fl {
		obs.Flagged = append(obs.Flagged, k)
	}
	sort.Ints(obs.Flagged)
	obs.Pairs = [][2]int{}
	for p := range ps {
		obs.Pairs = append(obs.Pairs, p)
	}
	sort.Slice(obs.Pairs, func(i, j int) bool {
		if obs.Pairs[i][0] != obs.Pairs[j][0] {
			return obs.Pairs[i][0] < obs.Pairs[j][0]
		}
		return obs.Pairs[i][1] < obs.Pairs[j][1]
	})
	return obs
}

type tMismatch struct {
	List     []tEntry `json:"list"`
	Class    string   `json:"class"` // violation | asbuilt
	What     string   `json:"what"`
	Expected any      `json:"expected"`
	Observed tObs     `json:"observed"`
}

type tReport struct {
	Cases      int         `json:"cases"`
	NonTrivial int         `json:"nontrivial"`
	Mismatches []tMismatch `json:"mismatches"`
	AsBuilt    int         `json:"asbuilt_hits"`
	Samples    []any       `json:"samples"`
}

func intsEq(a, b []int) bool {
	if len(a) != len(b) {
		return false
	}
	for i := range a {
		if a[i] != b[i] {
			return false
		}
	}
	return true
}

func trieReplay(args []string) error {
	fs := flag.NewFlagSet("trie-replay", flag.ExitOnError)
	cases := fs.String("cases", "", "")
	outp := fs.String("out", "", "")
	maxMis := fs.Int("max-mismatches", 200, "")
	fs.Parse(args)
	rep := tReport{Mismatches: []tMismatch{}, Samples: []any{}}
	err := readLines(*cases, func(line []byte) error {
		s := tlcPayload(line)
		if !strings.HasPrefix(s, "CASE ") {
			return nil
		}
		var c struct {
			List    []tEntry `json:"list"`
			Flagged []int    `json:"flagged"`
			Pairs   [][]int  `json:"pairs"`
			AsBuilt []int    `json:"asbuilt"`
			Keyed   []int    `json:"keyed"`
		}
		if err := json.Unmarshal([]byte(s[5:]), &c); err != nil {
			return fmt.Errorf("bad CASE: %v: %.200s", err, s)
		}
		rep.Cases++
		sort.Ints(c.Flagged)
		sort.Ints(c.AsBuilt)
		if len(c.Flagged) > 0 {
			rep.NonTrivial++
			if len(rep.Samples) < 3 && len(c.List) >= 3 {
				rep.Samples = append(rep.Samples, map[string]any{"list": c.List, "must_flag": c.Flagged})
			}
		}
		obs := runTrie(c.List)
		admissible := map[[2]int]bool{}
		for _, p := range c.Pairs {
			a, b := p[0], p[1]
			if a > b {
				a, b = b, a
			}
			admissible[[2]int{a, b}] = true
		}
		add := func(class, what string) {
			if class == "asbuilt" {
				rep.AsBuilt++
				if rep.AsBuilt > 10 {
					return // a handful of as-built samples is enough; never let them crowd out violations
				}
			}
			if len(rep.Mismatches) < *maxMis+10 {
				rep.Mismatches = append(rep.Mismatches, tMismatch{List: c.List, Class: class, What: what,
					Expected: map[string]any{"flagged": c.Flagged, "pairs": c.Pairs, "asbuilt": c.AsBuilt}, Observed: obs})
			}
		}
		if obs.Panic != "" {
			add("violation", "panic: "+obs.Panic)
			return nil
		}
		for _, p := range obs.Pairs {
			if !admissible[p] {
				add("violation", fmt.Sprintf("reported conflict between entries %d and %d which do not overlap on the same verb", p[0], p[1]))
				return nil
			}
		}
		if !intsEq(obs.Flagged, c.Flagged) {
			if intsEq(obs.Flagged, c.AsBuilt) {
				add("asbuilt", fmt.Sprintf("flagged %v, property demands %v (explained by the de-duplication key made of path texts)", obs.Flagged, c.Flagged))
			} else {
				add("violation", fmt.Sprintf("flagged %v, property demands %v", obs.Flagged, c.Flagged))
			}
		}
		return nil
	})
	if err != nil {
		return err
	}
	return writeJSONFile(*outp, rep)
}

func trieRecord(args []string) error {
	fs := flag.NewFlagSet("trie-record", flag.ExitOnError)
	outp := fs.String("out", "", "")
	seed := fs.Int64("seed", 1, "")
	n := fs.Int("n", 500, "")
	maxLen := fs.Int("maxlen", 7, "")
	corrupt := fs.Int("corrupt", -1, "")
	fs.Parse(args)
	rng := rand.New(rand.NewSource(*seed))
	f, err := os.Create(*outp)
	if err != nil {
		return err
	}
	defer f.Close()
	segs := []string{"a", "b", "c", "{x}", "{y}", "{id}"}
	verbs := []string{"GET", "POST", "PUT"}
	for i := 0; i < *n; i++ {
		l := 2 + rng.Intn(*maxLen-1)
		list := make([]tEntry, l)
		specList := make([]map[string]any, l)
		for j := range list {
			ns := rng.Intn(4)
			ss := make([]string, ns)
			for k := range ss {
				ss[k] = segs[rng.Intn(len(segs))]
			}
			// a few lists get many near-identical entries on purpose
			if j > 0 && rng.Intn(3) == 0 {
				prev := specList[rng.Intn(j)]
				ss = append([]string{}, prev["segs"].([]string)...)
			}
			form := []string{"plain", "plain", "nolead", "trail", "dbl", "dtrail", "dmid"}[rng.Intn(7)]
			body := strings.Join(ss, "/")
			var text string
			switch form {
			case "plain":
				text = "/" + body
			case "nolead":
				text = body
			case "trail":
				text = "/" + body
				if len(ss) > 0 {
					text += "/"
				}
			case "dbl":
				text = "//" + body
			case "dtrail":
				text = "/" + body + "//"
				if len(ss) == 0 {
					text = "//"
				}
			case "dmid":
				text = "/" + strings.Join(ss, "//")
			}
			verb := verbs[rng.Intn(len(verbs))]
			list[j] = tEntry{Verb: verb, Path: text}
			specList[j] = map[string]any{"verb": verb, "segs": ss, "form": form, "path": text}
		}
		obs := runTrie(list)
		if i == *corrupt && len(obs.Flagged) > 0 {
			obs.Flagged = obs.Flagged[1:]
		}
		ev := map[string]any{"ev": "FindConflicts", "list": specList, "flagged": obs.Flagged, "pairs": obs.Pairs}
		if obs.Panic != "" {
			ev["panic"] = obs.Panic
		}
		fmt.Fprintln(f, mustJSON(ev))
	}
	return nil
}
