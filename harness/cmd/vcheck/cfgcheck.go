package main

// Family F6 — the configuration document (property C20, spec/Config.tla).
//
// cfg-run   materialises ONE fixed small project per case (its shape - packages, files, controllers - is dictated by the CASE
//           line too, so the specification stays the single source), builds gleece.config.json from the case's `doc` (a list
//           of path/op/value edits applied to the empty document), pre-creates stale outputs where the case says so, runs the
//           real CLI `generate spec-and-routes` in a fresh process (hooks on) and writes one observation record per case.
// cfg-judge compares each observation with what TLC printed for the case: no oracle lives here, only projection + equality and
//           the stated implications (rejected => nothing loaded, nothing written, a named field).

import (
	"crypto/sha256"
	"encoding/hex"
	"encoding/json"
	"flag"
	"fmt"
	"os"
	"path/filepath"
	"regexp"
	"sort"
	"strconv"
	"strings"
	"sync"
	"syscall"
	"time"
)

func init() {
	commands["cfg-run"] = cfgRun
	commands["cfg-judge"] = cfgJudge
}

type cfgCtrl struct {
	Pkg    string `json:"pkg"`
	File   string `json:"file"`
	Name   string `json:"name"`
	Prefix string `json:"prefix"`
}

type cfgExpect struct {
	RoutesPath   string         `json:"routesPath"`
	Mode         string         `json:"mode"`
	Pkg          string         `json:"pkg"`
	EngineMarker string         `json:"engineMarker"`
	SpecPath     string         `json:"specPath"`
	Version      string         `json:"version"`
	Info         map[string]any `json:"info"`
	Servers      []string       `json:"servers"`
	Schemes      any            `json:"schemes"` // list of {key, attrs}
	Controllers  []string       `json:"controllers"`
}

type cfgCase struct {
	ID        string     `json:"id"`
	Kind      string     `json:"kind"`
	Doc       []pPatch   `json:"doc"`     // builds the whole document from {}
	Patches   []pPatch   `json:"patches"` // the author's edits relative to the base document (label; already contained in doc)
	Valid     bool       `json:"valid"`
	Stage     string     `json:"stage"` // parse | validate | "" (accepted): which part of LoadConfig the specification expects to object
	Names     []string   `json:"names"`
	Expect    *cfgExpect `json:"expect,omitempty"`
	Stale     bool       `json:"stale"`
	StaleAt   []string   `json:"staleAt"`
	StaleMode string     `json:"staleMode"`
	Project   []cfgCtrl  `json:"project"`
	Tags      []string   `json:"tags"`
}

type cfgObs struct {
	Run         *runObs  `json:"run"`
	RoutesHead  string   `json:"routesHead"`
	RoutesCtrls []string `json:"routesCtrls"` // controllers of the project whose type name occurs in the written routes file
	SpecCtrls   []string `json:"specCtrls"`   // controllers of the project with at least one documented operation under their prefix
	ConfigText  string   `json:"configText"`
	RawInfo     any      `json:"rawInfo"`
}

type cfgRecord struct {
	ID    string   `json:"id"`
	Case  *cfgCase `json:"case"`
	Obs   *cfgObs  `json:"obs"`
	Notes []string `json:"notes,omitempty"`
}

// setPath applies one edit to a JSON document made of map[string]any / []any; numeric path segments index arrays.
func setPath(cur any, path []string, p pPatch) any {
	if len(path) == 0 {
		switch p.Op {
		case "null":
			return nil
		case "emptyobj":
			return map[string]any{}
		case "emptylist":
			return []any{}
		default:
			return p.Value
		}
	}
	k := path[0]
	if idx, err := strconv.Atoi(k); err == nil {
		arr, _ := cur.([]any)
		if p.Op == "delete" && len(path) == 1 {
			if idx < len(arr) {
				arr = append(arr[:idx], arr[idx+1:]...)
			}
			return arr
		}
		for len(arr) <= idx {
			arr = append(arr, nil)
		}
		arr[idx] = setPath(arr[idx], path[1:], p)
		return arr
	}
	m, ok := cur.(map[string]any)
	if !ok {
		if p.Op == "delete" {
			return cur
		}
		m = map[string]any{}
	}
	if p.Op == "delete" && len(path) == 1 {
		delete(m, k)
		return m
	}
	m[k] = setPath(m[k], path[1:], p)
	return m
}

func buildDoc(edits []pPatch) ([]byte, error) {
	var doc any = map[string]any{}
	for _, e := range edits {
		doc = setPath(doc, strings.Split(e.Path, "."), e)
	}
	// a list element the document does not have (e.g. scheme 1 deleted while scheme 2 stays) leaves no hole: lists are dense
	doc = compactLists(doc, "")
	return json.MarshalIndent(doc, "", "  ")
}

// compactLists drops the padding entries (nil) setPath inserted for absent elements of object lists; an explicit null the
// author wrote at a leaf position is not inside an object list and is kept.
func compactLists(v any, key string) any {
	switch t := v.(type) {
	case map[string]any:
		for k, x := range t {
			t[k] = compactLists(x, k)
		}
		return t
	case []any:
		out := make([]any, 0, len(t))
		for _, x := range t {
			if x == nil && key == "securitySchemes" {
				continue
			}
			out = append(out, compactLists(x, ""))
		}
		return out
	}
	return v
}

func cfgProject(cc *cfgCase) *pCase {
	pc := &pCase{ID: cc.ID}
	for _, c := range cc.Project {
		id := c.Name
		pc.Ctrls = append(pc.Ctrls, pCtrl{ID: id, Pkg: c.Pkg, File: c.File, Name: c.Name, Prefix: c.Prefix, Tag: c.Name, Desc: "controller " + c.Name})
		pc.Methods = append(pc.Methods, pMethod{Ctrl: id, File: c.File, Name: "Get" + c.Name, Verb: "GET", Route: "/item", Ret: []string{"string", "error"},
			Sig: []pSig{}, Anns: []pAnn{}, Errors: []pErrResp{}, Desc: "returns an item of " + c.Name})
	}
	return pc
}

func loadCfgCases(path string) ([]*cfgCase, error) {
	out := []*cfgCase{}
	seen := map[string]bool{}
	err := readLines(path, func(line []byte) error {
		s := tlcPayload(line)
		if !strings.HasPrefix(s, "CASE ") {
			return nil
		}
		var cc cfgCase
		if err := json.Unmarshal([]byte(s[5:]), &cc); err != nil {
			return fmt.Errorf("bad CASE: %v: %.300s", err, s)
		}
		h := sha256.Sum256([]byte(s))
		cc.ID = "k" + hex.EncodeToString(h[:6])
		if seen[cc.ID] {
			return nil
		}
		seen[cc.ID] = true
		out = append(out, &cc)
		return nil
	})
	return out, err
}

func (r *runner) runCfgCase(work string, cc *cfgCase, keep bool) *cfgRecord {
	rec := &cfgRecord{ID: cc.ID, Case: cc}
	dir := filepath.Join(work, cc.ID)
	os.RemoveAll(dir)
	fail := func(what string, err error) *cfgRecord {
		rec.Notes = append(rec.Notes, "harness: "+what+": "+err.Error())
		return rec
	}
	if err := writeProject(dir, cfgProject(cc), r.repo, nil); err != nil {
		return fail("writeProject", err)
	}
	if !keep {
		defer os.RemoveAll(dir)
	}
	doc, err := buildDoc(cc.Doc)
	if err != nil {
		return fail("buildDoc", err)
	}
	if err := os.WriteFile(filepath.Join(dir, "gleece.config.json"), doc, 0o644); err != nil {
		return fail("write config", err)
	}
	if cc.Stale {
		mode, err := strconv.ParseUint(cc.StaleMode, 8, 32)
		if err != nil {
			return fail("staleMode", err)
		}
		for _, p := range cc.StaleAt {
			full := filepath.Join(dir, p)
			if err := os.MkdirAll(filepath.Dir(full), 0o755); err != nil {
				return fail("stale dir", err)
			}
			content := staleSpec
			if strings.HasSuffix(p, ".go") {
				content = staleRoutes
			}
			if err := os.WriteFile(full, []byte(content), os.FileMode(mode)); err != nil {
				return fail("stale file", err)
			}
			os.Chmod(full, os.FileMode(mode))
		}
	}
	routesOut, specOut := "", ""
	if cc.Expect != nil {
		routesOut, specOut = cc.Expect.RoutesPath, cc.Expect.SpecPath
	}
	obs := &cfgObs{ConfigText: string(doc)}
	obs.Run = r.runCLI(dir, "generate spec-and-routes", "gleece.config.json", routesOut, specOut, "")
	obs.Run.Closure = nil
	if routesOut != "" {
		if b, err := os.ReadFile(filepath.Join(dir, routesOut)); err == nil {
			txt := string(b)
			lines := strings.Split(txt, "\n")
			if len(lines) > 25 {
				lines = lines[:25]
			}
			obs.RoutesHead = strings.Join(lines, "\n")
			for _, c := range cc.Project {
				if strings.Contains(txt, c.Name) {
					obs.RoutesCtrls = append(obs.RoutesCtrls, c.Name)
				}
			}
		}
	}
	if obs.Run.Spec != nil {
		for _, c := range cc.Project {
			for _, op := range obs.Run.Spec.Ops {
				if op.Path == c.Prefix || strings.HasPrefix(op.Path, c.Prefix+"/") {
					obs.SpecCtrls = append(obs.SpecCtrls, c.Name)
					break
				}
			}
		}
		obs.Run.Spec.Ops = nil
		obs.Run.Spec.Components = nil
	}
	sort.Strings(obs.RoutesCtrls)
	sort.Strings(obs.SpecCtrls)
	rec.Obs = obs
	return rec
}

func cfgRun(args []string) error {
	fs := flag.NewFlagSet("cfg-run", flag.ExitOnError)
	casesPath := fs.String("cases", "", "")
	outp := fs.String("out", "", "records ndjson")
	gleece := fs.String("gleece", "", "CLI binary built from the repository with -tags verif")
	repo := fs.String("repo", "/repo", "")
	work := fs.String("work", "", "scratch directory for projects")
	jobs := fs.Int("jobs", 8, "")
	keep := fs.Bool("keep", false, "")
	timeout := fs.Int("timeout", 150, "seconds per CLI run")
	fs.Parse(args)
	// file modes are compared literally with the configured permission string - under the usual umask 022: the configured
	// permissions are a promise about the file, whatever the environment masks at creation (the generator sets the mode explicitly)
	syscall.Umask(0o022)
	cases, err := loadCfgCases(*casesPath)
	if err != nil {
		return err
	}
	r := &runner{gleece: *gleece, repo: *repo, timeout: time.Duration(*timeout) * time.Second}
	f, err := os.Create(*outp)
	if err != nil {
		return err
	}
	defer f.Close()
	var mu sync.Mutex
	var wg sync.WaitGroup
	ch := make(chan *cfgCase)
	for i := 0; i < *jobs; i++ {
		wg.Add(1)
		go func() {
			defer wg.Done()
			for cc := range ch {
				rec := r.runCfgCase(*work, cc, *keep)
				line := mustJSON(rec)
				mu.Lock()
				fmt.Fprintln(f, line)
				mu.Unlock()
			}
		}()
	}
	for _, cc := range cases {
		ch <- cc
	}
	close(ch)
	wg.Wait()
	return nil
}

// ---------------------------------------------------------------------------------------------------------------------------
// judge

type cfgSummary struct {
	Cases      int        `json:"cases"`
	Valid      int        `json:"valid"`
	Invalid    int        `json:"invalid"`
	Evaluated  int        `json:"evaluated"`
	NonTrivial int        `json:"nontrivial"`
	ByKind     map[string]int `json:"byKind"`
	Findings   []jFinding `json:"findings"`
	Samples    []any      `json:"samples"`
	Trouble    []string   `json:"trouble"`
}

func traceHas(tr []map[string]any, ev string) bool {
	for _, e := range tr {
		if e["event"] == ev {
			return true
		}
	}
	return false
}

func traceIndex(tr []map[string]any, ev string) int {
	for i, e := range tr {
		if e["event"] == ev {
			return i
		}
	}
	return -1
}

// namesField reports whether the text names one of the given fields as a word of its own.
func namesField(text string, names []string) bool {
	for _, n := range names {
		re := regexp.MustCompile(`(^|[^A-Za-z0-9_])` + regexp.QuoteMeta(n) + `($|[^A-Za-z0-9_])`)
		if re.MatchString(text) {
			return true
		}
	}
	return false
}

func patchLabel(cc *cfgCase) string {
	parts := []string{}
	for _, p := range cc.Patches {
		switch p.Op {
		case "set":
			parts = append(parts, p.Path+"="+mustJSON(p.Value))
		default:
			parts = append(parts, p.Path+":"+p.Op)
		}
	}
	if len(parts) == 0 {
		return "base document"
	}
	return strings.Join(parts, "; ")
}

func faults(cc *cfgCase) string {
	out := []string{}
	for _, t := range cc.Tags {
		if strings.HasPrefix(t, "fault:") {
			out = append(out, strings.TrimPrefix(t, "fault:"))
		}
	}
	sort.Strings(out)
	return strings.Join(out, ",")
}

func fsChanged(d fsDelta) []string {
	out := []string{}
	out = append(out, d.Created...)
	out = append(out, d.Modified...)
	out = append(out, d.Touched...)
	for _, x := range d.Deleted {
		out = append(out, "-"+x)
	}
	sort.Strings(out)
	return out
}

func judgeCfg(rec *cfgRecord, sum *cfgSummary) {
	cc := rec.Case
	label := patchLabel(cc)
	add := func(what string, more ...string) {
		sum.Findings = append(sum.Findings, jFinding{ID: rec.ID, Prop: "C20", What: "[" + label + "] :: " + what, Class: "violation", More: more})
	}
	for _, n := range rec.Notes {
		if strings.HasPrefix(n, "harness:") {
			sum.Trouble = append(sum.Trouble, rec.ID+": "+n)
			return
		}
	}
	if rec.Obs == nil || rec.Obs.Run == nil {
		sum.Trouble = append(sum.Trouble, rec.ID+": no observation")
		return
	}
	r := rec.Obs.Run
	if r.TimedOut || r.Exit == -2 {
		sum.Trouble = append(sum.Trouble, rec.ID+": CLI run did not complete: "+strings.Join(r.ErrLines, " | "))
		return
	}
	sum.Cases++
	sum.Evaluated++
	sum.ByKind[cc.Kind]++
	if len(cc.Patches) > 0 {
		sum.NonTrivial++
		if len(sum.Samples) < 4 && (sum.NonTrivial%7 == 1) {
			sum.Samples = append(sum.Samples, map[string]any{"id": rec.ID, "kind": cc.Kind, "patches": cc.Patches, "valid": cc.Valid, "names": cc.Names,
				"exit": r.Exit, "err": r.ErrLines, "written": fsChanged(r.Fs)})
		}
	}
	errText := strings.Join(r.ErrLines, "\n")
	if len(r.ErrLines) == 0 {
		errText = r.OutTail
	}
	tail := errText
	if len(tail) > 300 {
		tail = tail[:300]
	}
	if !cc.Valid {
		sum.Invalid++
		if r.Panicked {
			add("configuration violating a declared constraint makes the command panic", tail)
			return
		}
		if r.Exit == 0 {
			add(fmt.Sprintf("configuration violating a declared constraint (at fault: %s) is accepted: exit 0, written %v", faults(cc), fsChanged(r.Fs)))
			return
		}
		if !traceHas(r.Trace, "ConfigRejected") {
			add("configuration violating a declared constraint is not rejected by LoadConfig (no ConfigRejected event; the command failed later)", tail)
		}
		if traceHas(r.Trace, "PackagesLoad") || traceHas(r.Trace, "ConfigAccepted") {
			add("source analysis started for a configuration that violates a declared constraint (PackagesLoad/ConfigAccepted in the trace)", tail)
		}
		if ch := fsChanged(r.Fs); len(ch) > 0 {
			add(fmt.Sprintf("rejected configuration, yet the file system changed: %v", ch))
		}
		// the message must name the field; the path of the configuration file itself is not part of the message proper
		msg := strings.ReplaceAll(errText, "gleece.config.json", "")
		if !namesField(msg, cc.Names) {
			add(fmt.Sprintf("rejection message names none of %v (stage %s)", sortedStrings(cc.Names), cc.Stage), tail)
		}
		return
	}
	sum.Valid++
	e := cc.Expect
	if e == nil {
		sum.Trouble = append(sum.Trouble, rec.ID+": valid case without expectations")
		return
	}
	if r.Panicked {
		add("accepted configuration makes the command panic", tail)
		return
	}
	if r.Exit != 0 {
		if traceHas(r.Trace, "ConfigRejected") {
			add("configuration satisfying every declared constraint is rejected by LoadConfig", tail)
		} else {
			add("configuration satisfying every declared constraint is accepted, then the command fails", tail)
		}
		return
	}
	if i, j := traceIndex(r.Trace, "ConfigAccepted"), traceIndex(r.Trace, "PackagesLoad"); i < 0 || (j >= 0 && j < i) {
		add("trace lacks ConfigAccepted before the first PackagesLoad")
	}
	// artifacts at the configured paths, nothing else written
	want := sortedStrings([]string{filepath.Clean(e.RoutesPath), filepath.Clean(e.SpecPath)})
	got := []string{}
	got = append(got, r.Fs.Created...)
	got = append(got, r.Fs.Modified...)
	got = append(got, r.Fs.Touched...)
	sort.Strings(got)
	if strings.Join(got, ",") != strings.Join(want, ",") || len(r.Fs.Deleted) > 0 {
		add(fmt.Sprintf("written files %v (deleted %v), configured outputs %v", got, r.Fs.Deleted, want))
	}
	if r.RoutesFile == nil {
		add("no routes file at the configured path " + e.RoutesPath)
	} else {
		if r.RoutesFile.Mode != e.Mode {
			pre := "created"
			if cc.Stale {
				pre = "pre-existing with mode " + cc.StaleMode
			}
			add(fmt.Sprintf("routes file mode %s, configured permissions give %s (file %s)", r.RoutesFile.Mode, e.Mode, pre))
		}
		if r.RoutesPkg != e.Pkg {
			add(fmt.Sprintf("routes file declares package %q, configuration gives %q", r.RoutesPkg, e.Pkg))
		}
		if !strings.Contains(rec.Obs.RoutesHead, "Target Engine: "+e.EngineMarker) {
			add(fmt.Sprintf("routes file header does not say 'Target Engine: %s'", e.EngineMarker))
		}
		if a, b := strings.Join(rec.Obs.RoutesCtrls, ","), strings.Join(sortedStrings(e.Controllers), ","); a != b {
			add(fmt.Sprintf("routes file refers to controllers [%s], the globs select [%s]", a, b))
		}
	}
	if r.SpecFile == nil || r.Spec == nil {
		add("no (fresh) OpenAPI document at the configured path " + e.SpecPath + " " + r.SpecErr)
		return
	}
	if r.Spec.Version != e.Version {
		add(fmt.Sprintf("document says openapi %q, configuration %q", r.Spec.Version, e.Version))
	}
	var diffs []string
	diffJSON("info", canon(anyJSON(e.Info)), canon(anyJSON(r.Spec.Info)), &diffs, 6)
	if len(diffs) > 0 {
		add("info section differs from the configuration: "+diffs[0], diffs...)
	}
	if a, b := strings.Join(r.Spec.Servers, ","), strings.Join(e.Servers, ","); a != b {
		add(fmt.Sprintf("servers [%s], configured baseUrl [%s]", a, b))
	}
	expSchemes := map[string]any{}
	for _, it := range asSlice(anyJSON(e.Schemes)) {
		m := asMap(it)
		expSchemes[asString(m["key"])] = m["attrs"]
	}
	diffs = nil
	diffJSON("securitySchemes", canonMap(expSchemes), canonMap(r.Spec.Schemes), &diffs, 6)
	if len(diffs) > 0 {
		add("securitySchemes differ from the configuration: "+diffs[0], diffs...)
	}
	if a, b := strings.Join(rec.Obs.SpecCtrls, ","), strings.Join(sortedStrings(e.Controllers), ","); a != b {
		add(fmt.Sprintf("document has operations of controllers [%s], the globs select [%s]", a, b))
	}
}

// canonMap canonicalises a map but keeps an empty map a map (both sides are maps here).
func canonMap(m map[string]any) any {
	out := map[string]any{}
	for k, v := range m {
		out[k] = canon(anyJSON(v))
	}
	return out
}

func anyJSON(v any) any {
	b, err := json.Marshal(v)
	if err != nil {
		return nil
	}
	var out any
	json.Unmarshal(b, &out)
	return out
}

func cfgJudge(args []string) error {
	fs := flag.NewFlagSet("cfg-judge", flag.ExitOnError)
	recs := fs.String("records", "", "")
	outp := fs.String("out", "", "")
	fs.Parse(args)
	sum := &cfgSummary{ByKind: map[string]int{}, Findings: []jFinding{}, Samples: []any{}, Trouble: []string{}}
	err := readLines(*recs, func(line []byte) error {
		var rec cfgRecord
		if err := json.Unmarshal(line, &rec); err != nil {
			return err
		}
		judgeCfg(&rec, sum)
		return nil
	})
	if err != nil {
		return err
	}
	return writeJSONFile(*outp, sum)
}
