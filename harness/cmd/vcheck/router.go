package main

// Family F2 — the generated routers (properties C02 C03 C05 C09 C12, enforced side of C04).
//
// router-run: for every case (a project from the pipeline emission, with the handler descriptions the specification printed:
// effective security alternatives, parameter binding, verb/path) the real generator produces the routes file for each of the five
// engines; the package is compiled (C09); one driver binary containing all routers is built; requests enumerated from the handler
// descriptions (all approve/refuse scripts of the authorization callback, every value token of every parameter, absence, operation
// failure, negative probes) are served through httptest / fiber's app.Test; the user-side code generated next to the project (the
// authorization callback, the controllers) records what it saw. The recorded runs are judged by TLC (spec/RouterTrace.tla).

import (
	"encoding/json"
	"flag"
	"fmt"
	"net/url"
	"os"
	"os/exec"
	"path/filepath"
	"sort"
	"strings"
	"sync"
	"time"
)

func init() {
	commands["router-run"] = routerRun
	commands["router-trace"] = routerTrace
}

var engines = []string{"gin", "echo", "mux", "chi", "fiber"}

type hParam struct {
	Name     string `json:"name"`
	In       string `json:"in"`
	Wire     string `json:"wire"`
	Type     string `json:"type"`
	Required bool   `json:"required"`
	Validate string `json:"validate"`
}

type hHandler struct {
	Ctrl         string   `json:"ctrl"`
	CtrlName     string   `json:"ctrlName"`
	Pkg          string   `json:"pkg"`
	Method       string   `json:"method"`
	Verb         string   `json:"verb"`
	Path         string   `json:"path"`
	Hidden       bool     `json:"hidden"`
	Alts         []pSec   `json:"alts"`
	Params       []hParam `json:"params"`
	ReturnsValue bool     `json:"returnsValue"`
	RespCheck    string   `json:"respCheck"` // validity of the zero value under validateResponsePayload: valid | invalid | unknown
	EnumStrict   bool     `json:"enumStrict"` // experimentalConfig.validateTopLevelOnlyEnum
}

type vToken struct {
	Ty    string   `json:"ty"`
	ID    string   `json:"id"`
	Raw   []string `json:"raw"`
	Fits  bool     `json:"fits"`
	Canon string   `json:"canon"`
}

type rRequest struct {
	Case    string            `json:"case"`
	Rid     int               `json:"rid"`
	Verb    string            `json:"verb"`
	URL     string            `json:"url"`
	Headers map[string]string `json:"headers"`
	Body    string            `json:"body"`
	CType   string            `json:"ctype"`
	Script  []bool            `json:"script"`
	Fail    bool              `json:"fail"`
	SameErr bool              `json:"sameErr"`
	SetStatus int             `json:"setStatus"`
	StopAt string `json:"stopAt"` // the user middleware that answers "do not continue" ("" = none)
	NilCtx bool   `json:"nilCtx"` // the authorization callback hands back a nil context (with its approval or refusal)
	Chunked bool  `json:"chunked"` // the body is sent without a Content-Length (chunked transfer coding)
	// bookkeeping for the trace (not used by the driver)
	Handler *hHandler `json:"handler,omitempty"`
	Toks    []string  `json:"toks,omitempty"`
	Probe   bool      `json:"probe"`
	Kind    string    `json:"kind"`
}

type rEvent struct {
	Kind   string   `json:"kind"`
	Scheme string   `json:"scheme,omitempty"`
	Scopes []string `json:"scopes,omitempty"`
	Ok     bool     `json:"ok,omitempty"`
	Ctrl   string   `json:"ctrl,omitempty"`
	Method string   `json:"method,omitempty"`
	Args   []string `json:"args,omitempty"`
}

type rResult struct {
	Case   string   `json:"case"`
	Rid    int      `json:"rid"`
	Engine string   `json:"engine"`
	Events []rEvent `json:"events"`
	Status int      `json:"status"`
	Body   string   `json:"body"`
	Panic  string   `json:"panic,omitempty"`
}

type engineGen struct {
	Exit     int      `json:"exit"`
	ErrLines []string `json:"errLines,omitempty"`
	Written  bool     `json:"written"`
	Compiled bool     `json:"compiled"`
	BuildErr string   `json:"buildErr,omitempty"`
	Gofmt    string   `json:"gofmt"` // "" = gofmt -l reports nothing
	Pkg      string   `json:"pkg"`
	Panicked bool     `json:"panicked"`
}

type routerRecord struct {
	ID       string                `json:"id"`
	Case     *pCase                `json:"case"`
	Handlers []hHandler            `json:"handlers"`
	Gen      map[string]*engineGen `json:"gen"`
	Requests []rRequest            `json:"requests"`
	Results  []rResult             `json:"results"`
	Notes    []string              `json:"notes,omitempty"`
}

const vrecSrc = `// Package vrec is user-side recording code generated next to the test projects: the scripted authorization callback and the
// controllers report what they were called with. It is not part of gleece.
package vrec

import (
	"bytes"
	"context"
	"encoding/json"
	"strings"
	"sync"
)

type Event struct {
	Kind   string   ` + "`json:\"kind\"`" + `
	Scheme string   ` + "`json:\"scheme,omitempty\"`" + `
	Scopes []string ` + "`json:\"scopes,omitempty\"`" + `
	Ok     bool     ` + "`json:\"ok,omitempty\"`" + `
	Ctrl   string   ` + "`json:\"ctrl,omitempty\"`" + `
	Method string   ` + "`json:\"method,omitempty\"`" + `
	Args   []string ` + "`json:\"args,omitempty\"`" + `
}

var (
	mu     sync.Mutex
	events []Event
	script []bool
	calls  int
	fail   bool
	same   bool
	status int
	stopAt string
	nilCtx bool
)

func Reset(s []bool, f bool, sameErr bool, customStatus int, stop string, noCtx bool) {
	mu.Lock()
	defer mu.Unlock()
	events, script, calls, fail, same, status, stopAt, nilCtx = nil, s, 0, f, sameErr, customStatus, stop, noCtx
}

// NilCtx reports whether the callback is to hand back a nil context.
func NilCtx() bool {
	mu.Lock()
	defer mu.Unlock()
	return nilCtx
}

// MW records that the user-registered middleware called name (e.g. "before#1", "onError#2") ran and answers whether the operation
// continues: false exactly for the middleware the request's script stops at.
func MW(name string) bool {
	mu.Lock()
	defer mu.Unlock()
	events = append(events, Event{Kind: "MW", Method: name})
	return name != stopAt
}

// CustomStatus is the status the controller is to set through SetStatus before returning (0 = none).
func CustomStatus() int {
	mu.Lock()
	defer mu.Unlock()
	return status
}

// SameErr reports whether the callback is to answer every refusal with one shared error value.
func SameErr() bool {
	mu.Lock()
	defer mu.Unlock()
	return same
}

func Take() []Event {
	mu.Lock()
	defer mu.Unlock()
	out := events
	events = nil
	return out
}

// Auth answers the next scripted decision (approve once the script is exhausted) and reports the 1-based call index.
func Auth(scheme string, scopes []string) (bool, int) {
	mu.Lock()
	defer mu.Unlock()
	calls++
	ok := true
	if calls <= len(script) {
		ok = script[calls-1]
	}
	if scopes == nil {
		scopes = []string{}
	}
	events = append(events, Event{Kind: "Auth", Scheme: scheme, Scopes: scopes, Ok: ok})
	return ok, calls
}

func Invoke(ctrl, method string, args ...any) {
	mu.Lock()
	defer mu.Unlock()
	as := []string{}
	for _, a := range args {
		if _, isCtx := a.(context.Context); isCtx {
			as = append(as, "ctx")
			continue
		}
		var buf bytes.Buffer
		enc := json.NewEncoder(&buf)
		enc.SetEscapeHTML(false)
		if err := enc.Encode(a); err != nil {
			as = append(as, "unmarshalable:"+err.Error())
		} else {
			as = append(as, strings.TrimSpace(buf.String()))
		}
	}
	events = append(events, Event{Kind: "Invoke", Ctrl: ctrl, Method: method, Args: as})
}

func ShouldFail() bool {
	mu.Lock()
	defer mu.Unlock()
	return fail
}
`

func authSrc() string {
	return `package auth

import (
	"context"

	"` + caseModule + `/vrec"
	"github.com/gopher-fleece/runtime"
)

var errRefused = &runtime.SecurityError{Message: "refused by script", StatusCode: runtime.HttpStatusCode(403)}

// GleeceRequestAuthorization is the user-supplied callback: scripted and recording.
func GleeceRequestAuthorization(ctx context.Context, engineCtx any, check runtime.SecurityCheck) (context.Context, *runtime.SecurityError) {
	ok, idx := vrec.Auth(check.SchemaName, check.Scopes)
	if vrec.NilCtx() {
		ctx = nil // "no new context": the request keeps the one it has
	}
	if ok {
		return ctx, nil
	}
	if vrec.SameErr() {
		return ctx, errRefused
	}
	status := 403
	if idx%2 == 1 {
		status = 401
	}
	return ctx, &runtime.SecurityError{Message: "refused by script", StatusCode: runtime.HttpStatusCode(status)}
}
`
}

func respCheckOf(h *hHandler) string {
	if h.RespCheck == "" {
		return "valid"
	}
	return h.RespCheck
}

func recHook(c pCtrl, m pMethod, retLocal []string, imports map[string]bool) string {
	imports[caseModule+"/vrec"] = true
	args := []string{}
	for _, p := range m.Sig {
		args = append(args, p.Name)
	}
	var sb strings.Builder
	fmt.Fprintf(&sb, "\tvrec.Invoke(%q, %q%s)\n", c.ID, m.Name, func() string {
		if len(args) == 0 {
			return ""
		}
		return ", " + strings.Join(args, ", ")
	}())
	imports["github.com/gopher-fleece/runtime"] = true
	sb.WriteString("\tif st := vrec.CustomStatus(); st != 0 {\n\t\tctl_.SetStatus(runtime.HttpStatusCode(st))\n\t}\n")
	last := ""
	if len(retLocal) > 0 {
		last = retLocal[len(retLocal)-1]
	}
	names := []string{}
	for i, t := range retLocal {
		n := fmt.Sprintf("r%d", i)
		names = append(names, n)
		fmt.Fprintf(&sb, "\tvar %s %s\n", n, t)
	}
	if last == "error" {
		imports["errors"] = true
		fmt.Fprintf(&sb, "\tif vrec.ShouldFail() {\n\t\t%s = errors.New(\"scripted failure\")\n\t}\n", names[len(names)-1])
	}
	if len(names) > 0 {
		sb.WriteString("\treturn " + strings.Join(names, ", ") + "\n")
	}
	return sb.String()
}

func (r *runner) genEngine(dir string, pc *pCase, prefix, engine string) *engineGen {
	g := &engineGen{Pkg: "routes" + engine}
	cfg := pc.Cfg
	cfg.Engine = engine
	cfg.RoutesOut = "./routes" + engine + "/gleece.go"
	cfg.PkgName = "routes" + engine
	if len(cfg.Globs) == 0 {
		cfg.Globs = defaultGlobs(pc)
	}
	b, err := renderConfigP(cfg, "", "", prefix)
	if err != nil {
		g.Exit = -3
		g.ErrLines = []string{"harness: " + err.Error()}
		return g
	}
	name := "gleece." + engine + ".json"
	os.WriteFile(filepath.Join(dir, name), b, 0o644)
	obs := r.runCLI(dir, "generate routes", name, cfg.RoutesOut, "", "")
	g.Exit, g.ErrLines, g.Panicked = obs.Exit, obs.ErrLines, obs.Panicked
	g.Written = obs.RoutesFile != nil
	return g
}

func loadTokens(path string) (map[string][]vToken, error) {
	out := map[string][]vToken{}
	err := readLines(path, func(line []byte) error {
		s := tlcPayload(line)
		if !strings.HasPrefix(s, "TOKENS ") {
			return nil
		}
		var ts []vToken
		if err := json.Unmarshal([]byte(s[7:]), &ts); err != nil {
			return err
		}
		for _, t := range ts {
			out[t.Ty] = append(out[t.Ty], t)
		}
		return nil
	})
	for k := range out {
		sort.Slice(out[k], func(i, j int) bool { return out[k][i].ID < out[k][j].ID })
	}
	return out, err
}

func baseType(t string) string { return strings.TrimPrefix(t, "*") }

// buildRequest turns (handler, token choice per parameter) into a concrete HTTP request description.
// decoy >= 0: parameter `decoy` is absent from its declared location, and a value is planted under the same wire name in the
// other locations (a handler must not pick it up from there).
func buildRequest(h *hHandler, toks []string, tokens map[string][]vToken, decoy int) (rRequest, bool) {
	req := rRequest{Verb: h.Verb, Headers: map[string]string{}}
	path := h.Path
	q := url.Values{}
	form := url.Values{}
	hasForm := false
	for i, p := range h.Params {
		if p.In == "ctx" {
			continue
		}
		if toks[i] == "ABSENT" {
			if p.In == "path" {
				return req, false
			}
			if i == decoy && (p.In == "query" || p.In == "header" || p.In == "form") {
				if p.In != "query" {
					q.Add(p.Wire, "decoy")
				}
				if p.In != "header" && !strings.ContainsAny(p.Wire, " _") {
					req.Headers[p.Wire] = "decoy"
				}
				if p.In != "form" && !hasBodyParam(h) {
					hasForm = true
					form.Add(p.Wire, "decoy")
				}
			}
			continue
		}
		var tk *vToken
		for j := range tokens[baseType(p.Type)] {
			if tokens[baseType(p.Type)][j].ID == toks[i] {
				tk = &tokens[baseType(p.Type)][j]
			}
		}
		if tk == nil {
			return req, false
		}
		if p.In == "path" && len(tk.Raw) == 1 && tk.Raw[0] == "" {
			return req, false // an empty path segment is another path, not a value of this parameter
		}
		raws := []string{}
		for _, x := range tk.Raw {
			raws = append(raws, subst(x))
		}
		switch p.In {
		case "path":
			if raws[0] == "" {
				return req, false // an empty path segment is a different route
			}
			path = strings.ReplaceAll(path, "{"+p.Wire+"}", url.PathEscape(raws[0]))
		case "query":
			for _, x := range raws {
				q.Add(p.Wire, x)
			}
		case "header":
			if strings.ContainsAny(raws[0], "\r\n") || subst(tk.Raw[0]) != tk.Raw[0] {
				return req, false // header values are kept ASCII
			}
			req.Headers[p.Wire] = raws[0]
		case "form":
			hasForm = true
			for _, x := range raws {
				form.Add(p.Wire, x)
			}
		case "body":
			req.Body = raws[0]
			req.CType = "application/json"
		default:
			return req, false
		}
	}
	if strings.Contains(path, "{") {
		return req, false
	}
	if hasForm || (req.Body == "" && hasFormParam(h)) {
		req.Body = form.Encode()
		req.CType = "application/x-www-form-urlencoded"
	}
	req.URL = path
	if len(q) > 0 {
		req.URL += "?" + q.Encode()
	}
	return req, true
}

func hasBodyParam(h *hHandler) bool {
	for _, p := range h.Params {
		if p.In == "body" {
			return true
		}
	}
	return false
}

func hasFormParam(h *hHandler) bool {
	for _, p := range h.Params {
		if p.In == "form" {
			return true
		}
	}
	return false
}

func validTok(ty string, tokens map[string][]vToken) string {
	for _, t := range tokens[baseType(ty)] {
		if t.Fits {
			return t.ID
		}
	}
	return ""
}

func allScripts(n int) [][]bool {
	out := [][]bool{}
	for m := 0; m < 1<<n; m++ {
		s := make([]bool, n)
		for i := 0; i < n; i++ {
			s[i] = m&(1<<i) != 0
		}
		out = append(out, s)
	}
	return out
}

// enumerateRequests lists, for one case, the requests to serve: no expectation is computed here.
func enumerateRequests(id string, hs []hHandler, tokens map[string][]vToken, full bool) []rRequest {
	reqs := []rRequest{}
	add := func(h *hHandler, toks []string, script []bool, fail bool, kind string) {
		decoy := -1
		if kind == "absent+decoy" {
			for k := range toks {
				if toks[k] == "ABSENT" && h.Params[k].In != "ctx" {
					decoy = k
				}
			}
		}
		r, ok := buildRequest(h, toks, tokens, decoy)
		if !ok {
			return
		}
		// a concrete path that a second same-verb template also matches is outside the bounds (dispatch is engine-defined there)
		concrete := r.URL
		if i := strings.Index(concrete, "?"); i >= 0 {
			concrete = concrete[:i]
		}
		if un, err := url.PathUnescape(concrete); err == nil {
			concrete = un
		}
		for j := range hs {
			if &hs[j] != h && hs[j].Verb == h.Verb && (hs[j].Path != h.Path || hs[j].Method != h.Method) && templateMatches(hs[j].Path, concrete) {
				return
			}
		}
		r.Case, r.Rid, r.Handler, r.Toks, r.Script, r.Fail, r.Kind = id, len(reqs), h, append([]string{}, toks...), script, fail, kind
		r.SameErr = kind == "auth-same-error"
		r.NilCtx = kind == "auth-nil-ctx"
		r.Chunked = kind == "chunked"
		if strings.HasPrefix(kind, "mwstop:") {
			parts := strings.Split(kind, ":")
			r.StopAt = parts[1]
			r.Fail = len(parts) > 2 && parts[2] == "fail"
		}
		switch kind {
		case "status201":
			r.SetStatus = 201
		case "status202+fail":
			r.SetStatus = 202
		case "status503+fail":
			r.SetStatus = 503
		}
		reqs = append(reqs, r)
	}
	annotated := map[string]bool{}
	for _, h := range hs {
		annotated[h.Verb+" "+h.Path] = true
	}
	for i := range hs {
		h := &hs[i]
		usable := strings.HasPrefix(h.Path, "/") // a route without leading slash is not a request target any client can send
		for _, seg := range strings.Split(h.Path, "/") {
			if strings.Contains(seg, "{") && !(strings.HasPrefix(seg, "{") && strings.HasSuffix(seg, "}") && strings.Count(seg, "{") == 1) {
				usable = false // a placeholder glued to literal text ("/{t}x"): engines name such parameters differently; outside the bounds
			}
		}
		if !usable {
			continue
		}
		base := make([]string, len(h.Params))
		for k, p := range h.Params {
			if p.In == "ctx" {
				base[k] = "ABSENT"
				continue
			}
			if p.In == "?" {
				usable = false
				break
			}
			base[k] = validTok(p.Type, tokens)
			if base[k] == "" {
				usable = false
			}
		}
		if !usable {
			continue
		}
		// every behaviour of the authorization callback
		n := len(h.Alts)
		if n > 4 {
			n = 4
		}
		for _, s := range allScripts(n) {
			add(h, base, s, false, "auth")
		}
		if n >= 1 {
			// the callback hands back no context, with approvals and refusals alike
			for _, s := range allScripts(n) {
				add(h, base, s, false, "auth-nil-ctx")
			}
		}
		if n >= 2 {
			// every alternative refused with one shared error value (a sentinel), and refused-then-approved with it
			add(h, base, make([]bool, n), false, "auth-same-error")
			last := make([]bool, n)
			last[n-1] = true
			add(h, base, last, false, "auth-same-error")
		}
		// every token of every parameter, and absence
		for k, p := range h.Params {
			if p.In == "ctx" {
				continue
			}
			for _, t := range tokens[baseType(p.Type)] {
				if t.ID == base[k] && !full {
					continue
				}
				toks := append([]string{}, base...)
				toks[k] = t.ID
				add(h, toks, nil, false, "token")
			}
			if p.In == "body" {
				// the same bodies framed without a Content-Length (a streaming client): every body token, the base one included
				for _, t := range tokens[baseType(p.Type)] {
					toks := append([]string{}, base...)
					toks[k] = t.ID
					add(h, toks, nil, false, "chunked")
				}
			}
			if p.In != "path" {
				toks := append([]string{}, base...)
				toks[k] = "ABSENT"
				add(h, toks, nil, false, "absent")
				add(h, toks, nil, false, "absent+decoy")
				if len(h.Alts) > 0 {
					// unauthorised AND invalid: the refusal must win (parsing comes after the gate)
					refuse := make([]bool, len(h.Alts))
					add(h, toks, refuse, false, "refused+invalid")
				}
			}
		}
		add(h, base, nil, true, "fail")
		// user middlewares that stop the operation, at every stage of the handler
		stops := []string{"before#1", "after#2"}
		if full {
			stops = []string{"before#1", "before#2", "after#1", "after#2"}
		}
		for _, st := range stops {
			add(h, base, nil, false, "mwstop:"+st)
		}
		add(h, base, nil, true, "mwstop:onError#1:fail")
		if full {
			add(h, base, nil, true, "mwstop:onError#2:fail")
		}
		if respCheckOf(h) == "invalid" {
			add(h, base, nil, false, "mwstop:onOutput#1")
		}
		for k, p := range h.Params {
			if p.In != "ctx" && p.In != "path" && p.Required {
				toks := append([]string{}, base...)
				toks[k] = "ABSENT"
				add(h, toks, nil, false, "mwstop:onInput#2")
				if full {
					add(h, toks, nil, false, "mwstop:onInput#1")
				}
				break
			}
		}
		add(h, base, nil, false, "status201")
		add(h, base, nil, true, "status202+fail")
		add(h, base, nil, true, "status503+fail")
	}
	// negative probes: never annotated verb/path pairs
	// (a placeholder glued to literal text - "/{t}x" - is named differently by every engine: what such a template matches is
	//  engine-defined, so no request of its verb can be called "never annotated"; outside the bounds, as stated in DESIGN 10.5)
	gluedVerbs := map[string]bool{}
	for _, h := range hs {
		for _, seg := range strings.Split(h.Path, "/") {
			if strings.Contains(seg, "{") && !(strings.HasPrefix(seg, "{") && strings.HasSuffix(seg, "}") && strings.Count(seg, "{") == 1) {
				gluedVerbs[h.Verb] = true
			}
		}
	}
	probe := func(verb, path string) {
		if annotated[verb+" "+path] || strings.Contains(path, "{") || gluedVerbs[verb] {
			return
		}
		for _, h := range hs { // do not probe something a parameterised template of the same verb could match
			if h.Verb == verb && templateMatches(h.Path, path) {
				return
			}
		}
		dummy := hHandler{Verb: verb, Path: path, Alts: []pSec{}, Params: []hParam{}}
		reqs = append(reqs, rRequest{Case: id, Rid: len(reqs), Verb: verb, URL: path, Headers: map[string]string{}, Probe: true, Kind: "probe", Handler: &dummy, Toks: []string{}})
	}
	seenPath := map[string]bool{}
	for _, h := range hs {
		concrete := h.Path
		if !strings.HasPrefix(concrete, "/") {
			continue
		}
		for _, p := range h.Params {
			if p.In == "path" {
				concrete = strings.ReplaceAll(concrete, "{"+p.Wire+"}", "7")
			}
		}
		if seenPath[concrete] {
			continue
		}
		seenPath[concrete] = true
		for _, v := range []string{"GET", "POST", "PUT", "DELETE", "PATCH"} {
			probe(v, concrete)
		}
		probe(h.Verb, strings.TrimSuffix(concrete, "/")+"/zz/extra")
	}
	probe("GET", "/nope")
	return reqs
}

func templateMatches(tpl, path string) bool {
	a, b := strings.Split(strings.Trim(tpl, "/"), "/"), strings.Split(strings.Trim(path, "/"), "/")
	if len(a) != len(b) {
		return false
	}
	for i := range a {
		if strings.HasPrefix(a[i], "{") {
			continue
		}
		if a[i] != b[i] {
			return false
		}
	}
	return true
}

func driverSource(ids []string) string {
	var sb strings.Builder
	sb.WriteString("package main\n\nimport (\n\t\"bufio\"\n\t\"context\"\n\t\"encoding/json\"\n\t\"fmt\"\n\t\"io\"\n\t\"net/http\"\n\t\"net/http/httptest\"\n\t\"os\"\n\t\"strings\"\n\n")
	sb.WriteString("\t\"github.com/gopher-fleece/runtime\"\n")
	sb.WriteString("\t\"" + caseModule + "/vrec\"\n\t\"github.com/gin-gonic/gin\"\n\t\"github.com/go-chi/chi/v5\"\n\t\"github.com/gofiber/fiber/v2\"\n\tfiberrecover \"github.com/gofiber/fiber/v2/middleware/recover\"\n\t\"github.com/gorilla/mux\"\n\t\"github.com/labstack/echo/v4\"\n")
	for _, id := range ids {
		for _, e := range engines {
			fmt.Fprintf(&sb, "\tr_%s_%s \"%s/%s/routes%s\"\n", id, e, caseModule, id, e)
		}
	}
	sb.WriteString(")\n\n")
	sb.WriteString(`type request struct {
	Case    string            ` + "`json:\"case\"`" + `
	Rid     int               ` + "`json:\"rid\"`" + `
	Verb    string            ` + "`json:\"verb\"`" + `
	URL     string            ` + "`json:\"url\"`" + `
	Headers map[string]string ` + "`json:\"headers\"`" + `
	Body    string            ` + "`json:\"body\"`" + `
	CType   string            ` + "`json:\"ctype\"`" + `
	Script  []bool            ` + "`json:\"script\"`" + `
	Fail    bool              ` + "`json:\"fail\"`" + `
	SameErr bool              ` + "`json:\"sameErr\"`" + `
	SetStatus int             ` + "`json:\"setStatus\"`" + `
	StopAt  string            ` + "`json:\"stopAt\"`" + `
	NilCtx  bool              ` + "`json:\"nilCtx\"`" + `
	Chunked bool              ` + "`json:\"chunked\"`" + `
}

type result struct {
	Case   string       ` + "`json:\"case\"`" + `
	Rid    int          ` + "`json:\"rid\"`" + `
	Engine string       ` + "`json:\"engine\"`" + `
	Events []vrec.Event ` + "`json:\"events\"`" + `
	Status int          ` + "`json:\"status\"`" + `
	Body   string       ` + "`json:\"body\"`" + `
	Panic  string       ` + "`json:\"panic,omitempty\"`" + `
}

func stopGin(c *gin.Context)        { c.String(418, "stopped by middleware") }
func mwGin(name string) func(context.Context, *gin.Context) (context.Context, bool) {
	return func(ctx context.Context, c *gin.Context) (context.Context, bool) {
		if vrec.MW(name) {
			return ctx, true
		}
		stopGin(c)
		return ctx, false
	}
}
func emwGin(name string) func(context.Context, *gin.Context, error) (context.Context, bool) {
	return func(ctx context.Context, c *gin.Context, err error) (context.Context, bool) {
		if vrec.MW(name) {
			return ctx, true
		}
		stopGin(c)
		return ctx, false
	}
}
func mwEcho(name string) func(context.Context, echo.Context) (context.Context, bool) {
	return func(ctx context.Context, c echo.Context) (context.Context, bool) {
		if vrec.MW(name) {
			return ctx, true
		}
		c.String(418, "stopped by middleware")
		return ctx, false
	}
}
func emwEcho(name string) func(context.Context, echo.Context, error) (context.Context, bool) {
	return func(ctx context.Context, c echo.Context, err error) (context.Context, bool) {
		if vrec.MW(name) {
			return ctx, true
		}
		c.String(418, "stopped by middleware")
		return ctx, false
	}
}
func mwHttp(name string) func(context.Context, http.ResponseWriter, *http.Request) (context.Context, bool) {
	return func(ctx context.Context, w http.ResponseWriter, r *http.Request) (context.Context, bool) {
		if vrec.MW(name) {
			return ctx, true
		}
		w.WriteHeader(418)
		w.Write([]byte("stopped by middleware"))
		return ctx, false
	}
}
func emwHttp(name string) func(context.Context, http.ResponseWriter, *http.Request, error) (context.Context, bool) {
	return func(ctx context.Context, w http.ResponseWriter, r *http.Request, err error) (context.Context, bool) {
		if vrec.MW(name) {
			return ctx, true
		}
		w.WriteHeader(418)
		w.Write([]byte("stopped by middleware"))
		return ctx, false
	}
}
func mwFiber(name string) func(context.Context, *fiber.Ctx) (context.Context, bool) {
	return func(ctx context.Context, c *fiber.Ctx) (context.Context, bool) {
		if vrec.MW(name) {
			return ctx, true
		}
		c.Status(418).SendString("stopped by middleware")
		return ctx, false
	}
}
func emwFiber(name string) func(context.Context, *fiber.Ctx, error) (context.Context, bool) {
	return func(ctx context.Context, c *fiber.Ctx, err error) (context.Context, bool) {
		if vrec.MW(name) {
			return ctx, true
		}
		c.Status(418).SendString("stopped by middleware")
		return ctx, false
	}
}

type served struct {
	h   http.Handler
	app *fiber.App
}

func build(id, engine string) served {
	switch id + "/" + engine {
`)
	for _, id := range ids {
		fmt.Fprintf(&sb, "\tcase \"%[1]s/gin\":\n\t\te := gin.New()\n\t\tr_%[2]s_gin.RegisterRoutes(e)\n\t\tr_%[2]s_gin.RegisterMiddleware(runtime.BeforeOperation, mwGin(\"before#1\"))\n\t\tr_%[2]s_gin.RegisterMiddleware(runtime.BeforeOperation, mwGin(\"before#2\"))\n\t\tr_%[2]s_gin.RegisterMiddleware(runtime.AfterOperationSuccess, mwGin(\"after#1\"))\n\t\tr_%[2]s_gin.RegisterMiddleware(runtime.AfterOperationSuccess, mwGin(\"after#2\"))\n\t\tr_%[2]s_gin.RegisterErrorMiddleware(runtime.OnOperationError, emwGin(\"onError#1\"))\n\t\tr_%[2]s_gin.RegisterErrorMiddleware(runtime.OnOperationError, emwGin(\"onError#2\"))\n\t\tr_%[2]s_gin.RegisterErrorMiddleware(runtime.OnInputValidationError, emwGin(\"onInput#1\"))\n\t\tr_%[2]s_gin.RegisterErrorMiddleware(runtime.OnInputValidationError, emwGin(\"onInput#2\"))\n\t\tr_%[2]s_gin.RegisterErrorMiddleware(runtime.OnOutputValidationError, emwGin(\"onOutput#1\"))\n\t\tr_%[2]s_gin.RegisterErrorMiddleware(runtime.OnOutputValidationError, emwGin(\"onOutput#2\"))\n\t\treturn served{h: e}\n", id, id)
		fmt.Fprintf(&sb, "\tcase \"%[1]s/echo\":\n\t\te := echo.New()\n\t\tr_%[2]s_echo.RegisterRoutes(e)\n\t\tr_%[2]s_echo.RegisterMiddleware(runtime.BeforeOperation, mwEcho(\"before#1\"))\n\t\tr_%[2]s_echo.RegisterMiddleware(runtime.BeforeOperation, mwEcho(\"before#2\"))\n\t\tr_%[2]s_echo.RegisterMiddleware(runtime.AfterOperationSuccess, mwEcho(\"after#1\"))\n\t\tr_%[2]s_echo.RegisterMiddleware(runtime.AfterOperationSuccess, mwEcho(\"after#2\"))\n\t\tr_%[2]s_echo.RegisterErrorMiddleware(runtime.OnOperationError, emwEcho(\"onError#1\"))\n\t\tr_%[2]s_echo.RegisterErrorMiddleware(runtime.OnOperationError, emwEcho(\"onError#2\"))\n\t\tr_%[2]s_echo.RegisterErrorMiddleware(runtime.OnInputValidationError, emwEcho(\"onInput#1\"))\n\t\tr_%[2]s_echo.RegisterErrorMiddleware(runtime.OnInputValidationError, emwEcho(\"onInput#2\"))\n\t\tr_%[2]s_echo.RegisterErrorMiddleware(runtime.OnOutputValidationError, emwEcho(\"onOutput#1\"))\n\t\tr_%[2]s_echo.RegisterErrorMiddleware(runtime.OnOutputValidationError, emwEcho(\"onOutput#2\"))\n\t\treturn served{h: e}\n", id, id)
		fmt.Fprintf(&sb, "\tcase \"%[1]s/mux\":\n\t\te := mux.NewRouter()\n\t\tr_%[2]s_mux.RegisterRoutes(e)\n\t\tr_%[2]s_mux.RegisterMiddleware(runtime.BeforeOperation, mwHttp(\"before#1\"))\n\t\tr_%[2]s_mux.RegisterMiddleware(runtime.BeforeOperation, mwHttp(\"before#2\"))\n\t\tr_%[2]s_mux.RegisterMiddleware(runtime.AfterOperationSuccess, mwHttp(\"after#1\"))\n\t\tr_%[2]s_mux.RegisterMiddleware(runtime.AfterOperationSuccess, mwHttp(\"after#2\"))\n\t\tr_%[2]s_mux.RegisterErrorMiddleware(runtime.OnOperationError, emwHttp(\"onError#1\"))\n\t\tr_%[2]s_mux.RegisterErrorMiddleware(runtime.OnOperationError, emwHttp(\"onError#2\"))\n\t\tr_%[2]s_mux.RegisterErrorMiddleware(runtime.OnInputValidationError, emwHttp(\"onInput#1\"))\n\t\tr_%[2]s_mux.RegisterErrorMiddleware(runtime.OnInputValidationError, emwHttp(\"onInput#2\"))\n\t\tr_%[2]s_mux.RegisterErrorMiddleware(runtime.OnOutputValidationError, emwHttp(\"onOutput#1\"))\n\t\tr_%[2]s_mux.RegisterErrorMiddleware(runtime.OnOutputValidationError, emwHttp(\"onOutput#2\"))\n\t\treturn served{h: e}\n", id, id)
		fmt.Fprintf(&sb, "\tcase \"%[1]s/chi\":\n\t\te := chi.NewRouter()\n\t\tr_%[2]s_chi.RegisterRoutes(e)\n\t\tr_%[2]s_chi.RegisterMiddleware(runtime.BeforeOperation, mwHttp(\"before#1\"))\n\t\tr_%[2]s_chi.RegisterMiddleware(runtime.BeforeOperation, mwHttp(\"before#2\"))\n\t\tr_%[2]s_chi.RegisterMiddleware(runtime.AfterOperationSuccess, mwHttp(\"after#1\"))\n\t\tr_%[2]s_chi.RegisterMiddleware(runtime.AfterOperationSuccess, mwHttp(\"after#2\"))\n\t\tr_%[2]s_chi.RegisterErrorMiddleware(runtime.OnOperationError, emwHttp(\"onError#1\"))\n\t\tr_%[2]s_chi.RegisterErrorMiddleware(runtime.OnOperationError, emwHttp(\"onError#2\"))\n\t\tr_%[2]s_chi.RegisterErrorMiddleware(runtime.OnInputValidationError, emwHttp(\"onInput#1\"))\n\t\tr_%[2]s_chi.RegisterErrorMiddleware(runtime.OnInputValidationError, emwHttp(\"onInput#2\"))\n\t\tr_%[2]s_chi.RegisterErrorMiddleware(runtime.OnOutputValidationError, emwHttp(\"onOutput#1\"))\n\t\tr_%[2]s_chi.RegisterErrorMiddleware(runtime.OnOutputValidationError, emwHttp(\"onOutput#2\"))\n\t\treturn served{h: e}\n", id, id)
		fmt.Fprintf(&sb, "\tcase \"%[1]s/fiber\":\n\t\te := fiber.New(fiber.Config{DisableStartupMessage: true})\n\t\te.Use(fiberrecover.New())\n\t\tr_%[2]s_fiber.RegisterRoutes(e)\n\t\tr_%[2]s_fiber.RegisterMiddleware(runtime.BeforeOperation, mwFiber(\"before#1\"))\n\t\tr_%[2]s_fiber.RegisterMiddleware(runtime.BeforeOperation, mwFiber(\"before#2\"))\n\t\tr_%[2]s_fiber.RegisterMiddleware(runtime.AfterOperationSuccess, mwFiber(\"after#1\"))\n\t\tr_%[2]s_fiber.RegisterMiddleware(runtime.AfterOperationSuccess, mwFiber(\"after#2\"))\n\t\tr_%[2]s_fiber.RegisterErrorMiddleware(runtime.OnOperationError, emwFiber(\"onError#1\"))\n\t\tr_%[2]s_fiber.RegisterErrorMiddleware(runtime.OnOperationError, emwFiber(\"onError#2\"))\n\t\tr_%[2]s_fiber.RegisterErrorMiddleware(runtime.OnInputValidationError, emwFiber(\"onInput#1\"))\n\t\tr_%[2]s_fiber.RegisterErrorMiddleware(runtime.OnInputValidationError, emwFiber(\"onInput#2\"))\n\t\tr_%[2]s_fiber.RegisterErrorMiddleware(runtime.OnOutputValidationError, emwFiber(\"onOutput#1\"))\n\t\tr_%[2]s_fiber.RegisterErrorMiddleware(runtime.OnOutputValidationError, emwFiber(\"onOutput#2\"))\n\t\treturn served{app: e}\n", id, id)
	}
	sb.WriteString(`	}
	panic("unknown router " + id + "/" + engine)
}

func serve(s served, rq request) (res result) {
	defer func() {
		if p := recover(); p != nil {
			res.Panic = fmt.Sprint(p)
		}
	}()
	vrec.Reset(rq.Script, rq.Fail, rq.SameErr, rq.SetStatus, rq.StopAt, rq.NilCtx)
	var body io.Reader
	if rq.Body != "" {
		body = strings.NewReader(rq.Body)
		if rq.Chunked {
			body = struct{ io.Reader }{strings.NewReader(rq.Body)} // a reader of unknown length
		}
	}
	req := httptest.NewRequest(rq.Verb, rq.URL, body)
	if rq.Chunked && rq.Body != "" {
		req.ContentLength = -1
		req.TransferEncoding = []string{"chunked"}
	}
	for k, v := range rq.Headers {
		req.Header.Set(k, v)
	}
	if rq.CType != "" {
		req.Header.Set("Content-Type", rq.CType)
	}
	if s.app != nil {
		resp, err := s.app.Test(req, -1)
		if err != nil {
			res.Panic = "fiber test: " + err.Error()
			return
		}
		b, _ := io.ReadAll(resp.Body)
		res.Status, res.Body = resp.StatusCode, string(b)
		return
	}
	rec := httptest.NewRecorder()
	s.h.ServeHTTP(rec, req)
	res.Status, res.Body = rec.Code, rec.Body.String()
	return
}

func main() {
	gin.SetMode(gin.ReleaseMode)
	in, err := os.Open(os.Args[1])
	if err != nil {
		panic(err)
	}
	out, err := os.Create(os.Args[2])
	if err != nil {
		panic(err)
	}
	defer out.Close()
	w := bufio.NewWriter(out)
	defer w.Flush()
	cache := map[string]served{}
	regErr := map[string]string{}
	sc := bufio.NewScanner(in)
	sc.Buffer(make([]byte, 1<<20), 1<<26)
	for sc.Scan() {
		var rq request
		if err := json.Unmarshal(sc.Bytes(), &rq); err != nil {
			panic(err)
		}
		for _, engine := range []string{"gin", "echo", "mux", "chi", "fiber"} {
			key := rq.Case + "/" + engine
			s, ok := cache[key]
			if !ok {
				func() {
					defer func() {
						if p := recover(); p != nil {
							regErr[key] = fmt.Sprint(p)
						}
					}()
					s = build(rq.Case, engine)
				}()
				cache[key] = s
			}
			if msg, bad := regErr[key]; bad {
				b, _ := json.Marshal(result{Case: rq.Case, Rid: rq.Rid, Engine: engine, Panic: "register: " + msg})
				w.Write(b)
				w.WriteByte('\n')
				continue
			}
			res := serve(s, rq)
			res.Case, res.Rid, res.Engine = rq.Case, rq.Rid, engine
			res.Events = vrec.Take()
			if len(res.Body) > 600 {
				res.Body = res.Body[:600]
			}
			b, _ := json.Marshal(res)
			w.Write(b)
			w.WriteByte('\n')
		}
	}
}
`)
	return sb.String()
}

func routerRun(args []string) error {
	fs := flag.NewFlagSet("router-run", flag.ExitOnError)
	casesPath := fs.String("cases", "", "")
	tokensPath := fs.String("tokens", "", "file with the TOKENS line printed by TLC")
	outp := fs.String("out", "", "records ndjson")
	gleece := fs.String("gleece", "", "")
	repo := fs.String("repo", "/repo", "")
	work := fs.String("work", "", "")
	jobs := fs.Int("jobs", 8, "")
	limit := fs.Int("limit", 0, "")
	full := fs.Bool("full", false, "all tokens incl. the base one for every parameter")
	fs.Parse(args)
	cases, err := loadCases(*casesPath)
	if err != nil {
		return err
	}
	if *limit > 0 && len(cases) > *limit {
		cases = cases[:*limit]
	}
	tokens, err := loadTokens(*tokensPath)
	if err != nil || len(tokens) == 0 {
		return fmt.Errorf("no value tokens loaded from %s: %v", *tokensPath, err)
	}
	r := &runner{gleece: *gleece, repo: *repo, timeout: 90 * time.Second}
	mod := filepath.Join(*work, "mod")
	os.RemoveAll(mod)
	if err := os.MkdirAll(filepath.Join(mod, "vrec"), 0o755); err != nil {
		return err
	}
	// shared module
	empty := &pCase{}
	if err := writeProjectP(filepath.Join(mod, "_seed"), empty, *repo, nil, caseModule, true); err != nil {
		return err
	}
	os.Rename(filepath.Join(mod, "_seed", "go.mod"), filepath.Join(mod, "go.mod"))
	os.Rename(filepath.Join(mod, "_seed", "go.sum"), filepath.Join(mod, "go.sum"))
	os.RemoveAll(filepath.Join(mod, "_seed"))
	os.WriteFile(filepath.Join(mod, "vrec", "vrec.go"), []byte(vrecSrc), 0o644)

	recs := make([]*routerRecord, len(cases))
	var wg sync.WaitGroup
	sem := make(chan struct{}, *jobs)
	for i, pc := range cases {
		wg.Add(1)
		go func(i int, pc *pCase) {
			defer wg.Done()
			sem <- struct{}{}
			defer func() { <-sem }()
			rec := &routerRecord{ID: pc.ID, Case: pc, Gen: map[string]*engineGen{}}
			recs[i] = rec
			var exp struct {
				Handlers []hHandler `json:"handlers"`
			}
			if err := json.Unmarshal(pc.Expect, &exp); err != nil {
				rec.Notes = append(rec.Notes, "harness: bad expect: "+err.Error())
				return
			}
			rec.Handlers = exp.Handlers
			sort.Slice(rec.Handlers, func(a, b int) bool { return rec.Handlers[a].Method < rec.Handlers[b].Method })
			dir := filepath.Join(mod, pc.ID)
			prefix := caseModule + "/" + pc.ID
			if err := writeProjectP(dir, pc, *repo, recHook, prefix, false); err != nil {
				rec.Notes = append(rec.Notes, "harness: "+err.Error())
				return
			}
			os.MkdirAll(filepath.Join(dir, "auth"), 0o755)
			os.WriteFile(filepath.Join(dir, "auth", "auth.go"), []byte(authSrc()), 0o644)
			for _, e := range engines {
				rec.Gen[e] = r.genEngine(dir, pc, prefix, e)
			}
		}(i, pc)
	}
	wg.Wait()

	// C09: does every written routes file compile, is it gofmt-clean
	for _, rec := range recs {
		wg.Add(1)
		go func(rec *routerRecord) {
			defer wg.Done()
			sem <- struct{}{}
			defer func() { <-sem }()
			for _, e := range engines {
				g := rec.Gen[e]
				if g == nil || !g.Written || g.Exit != 0 {
					continue
				}
				if msg := goBuild(mod, "./"+rec.ID+"/routes"+e); msg != "" {
					g.BuildErr = msg
				} else {
					g.Compiled = true
				}
				out, _ := exec.Command("gofmt", "-l", filepath.Join(mod, rec.ID, "routes"+e, "gleece.go")).CombinedOutput()
				g.Gofmt = strings.TrimSpace(string(out))
			}
		}(rec)
	}
	wg.Wait()

	ok := []string{}
	for _, rec := range recs {
		all := len(rec.Gen) == len(engines)
		for _, e := range engines {
			if rec.Gen[e] == nil || !rec.Gen[e].Compiled {
				all = false
			}
		}
		if all {
			ok = append(ok, rec.ID)
		}
	}
	if len(ok) > 0 {
		os.MkdirAll(filepath.Join(mod, "driver"), 0o755)
		os.WriteFile(filepath.Join(mod, "driver", "main.go"), []byte(driverSource(ok)), 0o644)
		cmd := exec.Command("go", "build", "-o", filepath.Join(mod, "driver.bin"), "./driver")
		cmd.Dir = mod
		cmd.Env = append(os.Environ(), "GOFLAGS=-mod=mod", "GOPROXY=off")
		if out, err := cmd.CombinedOutput(); err != nil {
			return fmt.Errorf("driver build failed: %v\n%.3000s", err, out)
		}
		okSet := map[string]bool{}
		for _, id := range ok {
			okSet[id] = true
		}
		reqFile := filepath.Join(mod, "requests.ndjson")
		rf, _ := os.Create(reqFile)
		for _, rec := range recs {
			if !okSet[rec.ID] {
				continue
			}
			// handlers whose method returns a custom error type by value are not driven: a zero struct value is a non-nil error,
			// so "success" cannot be scripted for them from user code
			plain := []hHandler{}
			glued := false
			for _, h := range rec.Handlers {
				for _, m := range rec.Case.Methods {
					if m.Name == h.Method && len(m.Ret) > 0 && m.Ret[len(m.Ret)-1] == "error" {
						plain = append(plain, h)
					}
				}
			}
			for _, h := range rec.Handlers {
				for _, seg := range strings.Split(h.Path, "/") {
					if strings.Contains(seg, "{") && !(strings.HasPrefix(seg, "{") && strings.HasSuffix(seg, "}") && strings.Count(seg, "{") == 1) {
						plain, glued = nil, true // a placeholder glued to literal text anywhere in the project changes how engines match sibling paths
					}
				}
			}
			if glued {
				continue // nothing is sent to such a project - not even the generic negative probes (what "/{t}x" matches is engine-defined)
			}
			rec.Requests = enumerateRequests(rec.ID, plain, tokens, *full)
			for _, rq := range rec.Requests {
				fmt.Fprintln(rf, mustJSON(rq))
			}
		}
		rf.Close()
		resFile := filepath.Join(mod, "results.ndjson")
		cmd = exec.Command(filepath.Join(mod, "driver.bin"), reqFile, resFile)
		if out, err := cmd.CombinedOutput(); err != nil {
			return fmt.Errorf("driver run failed: %v\n%.3000s", err, out)
		}
		byCase := map[string]*routerRecord{}
		for _, rec := range recs {
			byCase[rec.ID] = rec
		}
		err := readLines(resFile, func(line []byte) error {
			var res rResult
			if err := json.Unmarshal(line, &res); err != nil {
				return err
			}
			byCase[res.Case].Results = append(byCase[res.Case].Results, res)
			return nil
		})
		if err != nil {
			return err
		}
	}
	f, err := os.Create(*outp)
	if err != nil {
		return err
	}
	defer f.Close()
	for _, rec := range recs {
		fmt.Fprintln(f, mustJSON(rec))
	}
	return nil
}

// router-trace flattens a router recording into the NDJSON trace spec/RouterTrace.tla reads, plus an index (line -> case/request/engine).
func routerTrace(args []string) error {
	fs := flag.NewFlagSet("router-trace", flag.ExitOnError)
	recs := fs.String("records", "", "")
	outp := fs.String("out", "", "")
	idx := fs.String("index", "", "")
	fs.Parse(args)
	f, err := os.Create(*outp)
	if err != nil {
		return err
	}
	defer f.Close()
	fi, err := os.Create(*idx)
	if err != nil {
		return err
	}
	defer fi.Close()
	return readLines(*recs, func(line []byte) error {
		var rec routerRecord
		if err := json.Unmarshal(line, &rec); err != nil {
			return err
		}
		byRid := map[int][]rResult{}
		for _, r := range rec.Results {
			if strings.HasPrefix(r.Panic, "register: ") {
				return nil // an engine refused to register the project's routes (overlapping templates): outside C02/C12's bounds
			}
			byRid[r.Rid] = append(byRid[r.Rid], r)
		}
		for _, rq := range rec.Requests {
			outcomes := []string{}
			for _, res := range byRid[rq.Rid] {
				auth := []map[string]any{}
				invoked := false
				target := ""
				argsGot := []string{}
				mw := []string{}
				for _, ev := range res.Events {
					switch ev.Kind {
					case "MW":
						mw = append(mw, ev.Method)
					case "Auth":
						sc := ev.Scopes
						if sc == nil {
							sc = []string{}
						}
						auth = append(auth, map[string]any{"scheme": ev.Scheme, "scopes": sc, "ok": ev.Ok})
					case "Invoke":
						invoked = true
						target = ev.Ctrl + "." + ev.Method
						argsGot = ev.Args
					}
				}
				panicked := res.Panic != "" || (res.Status == 500 && strings.Contains(res.Body, "runtime error"))
				h := rq.Handler
				params := []map[string]any{}
				for _, p := range h.Params {
					params = append(params, map[string]any{"name": p.Name, "in": p.In, "wire": p.Wire, "type": p.Type, "required": p.Required, "validate": p.Validate})
				}
				alts := []map[string]any{}
				for _, a := range h.Alts {
					sc := a.Scopes
					if sc == nil {
						sc = []string{}
					}
					alts = append(alts, map[string]any{"scheme": a.Scheme, "scopes": sc})
				}
				script := rq.Script
				if script == nil {
					script = []bool{}
				}
				toks := rq.Toks
				if toks == nil {
					toks = []string{}
				}
				canonArgs := []string{}
				for _, a := range argsGot {
					canonArgs = append(canonArgs, strings.ReplaceAll(a, unicodeSample, "<U1>"))
				}
				ev := map[string]any{"ev": "Run", "probe": rq.Probe, "target": h.Ctrl + "." + h.Method, "toks": toks, "script": script, "fail": rq.Fail, "sameErr": rq.SameErr, "setStatus": rq.SetStatus, "stopAt": rq.StopAt,
					"handler": map[string]any{"alts": alts, "params": params, "returnsValue": h.ReturnsValue, "respCheck": respCheckOf(h), "enumStrict": h.EnumStrict},
					"obs": map[string]any{"auth": auth, "invoked": invoked, "target": target, "args": canonArgs, "status": res.Status, "panicked": panicked, "mw": mw}}
				fmt.Fprintln(f, mustJSON(ev))
				fmt.Fprintf(fi, "%s %d %s\n", rec.ID, rq.Rid, res.Engine)
				body := res.Body
				if !rq.Probe {
					// the observable contract: who was called with what, status, JSON-equivalent body
					var v any
					if json.Unmarshal([]byte(body), &v) == nil {
						body = mustJSON(v)
					}
					outcomes = append(outcomes, fmt.Sprintf("%v|%s|%s|%d|%s|%s", invoked, target, strings.Join(canonArgs, ","), res.Status, body, strings.Join(mw, ",")))
				}
			}
			if len(outcomes) > 0 {
				fmt.Fprintln(f, mustJSON(map[string]any{"ev": "Cmp", "outcomes": outcomes}))
				fmt.Fprintf(fi, "%s %d cmp\n", rec.ID, rq.Rid)
			}
		}
		return nil
	})
}
