// vcheck is the Go side of the conformance machinery: it concretises abstract cases produced by TLC,
// runs the real gleece code on them, projects the results back into the specification's vocabulary
// and compares (direction A), or records traces of real executions for TLC to validate (direction B).
// It never decides a property by itself: expected values come from TLC output, verdicts on traces from TLC.
package main

import (
	"fmt"
	"os"
)

var commands = map[string]func(args []string) error{}

func main() {
	if len(os.Args) < 2 {
		fmt.Fprintln(os.Stderr, "usage: vcheck <command> [flags]")
		os.Exit(2)
	}
	cmd, ok := commands[os.Args[1]]
	if !ok {
		fmt.Fprintf(os.Stderr, "unknown command %q\n", os.Args[1])
		os.Exit(2)
	}
	if err := cmd(os.Args[2:]); err != nil {
		fmt.Fprintln(os.Stderr, "vcheck:", err)
		os.Exit(2)
	}
}
