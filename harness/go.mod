module verif/harness

go 1.24.7
